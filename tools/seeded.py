#!/venv/bin/python
"""Manage independently written breaking changes (seeded/).

  tools/seeded.py import <src-dir> <id>      verify <src-dir>/{patch.diff,demo.py,meta.json} in a scratch worktree of /repo
                                             (suite stays at baseline, demo exits 1 with / 0 without) and keep it as seeded/<id>/
  tools/seeded.py run <id> <prop> [tier]     apply seeded/<id>/patch.diff to /repo, run ./check <prop> <tier>, undo
  tools/seeded.py runall [tier]              every seeded/<id> against the property named in its meta.json; prints a table

Scratch worktrees live under /tmp and are removed straight away.
"""
import json
import os
import re
import shutil
import subprocess
import sys
import time

VERIF = os.path.dirname(os.path.dirname(os.path.abspath(__file__)))
REPO = '/repo'
SITE = os.path.join(VERIF, 'tools', 'site')
INC = '/root/.pyenv/versions/3.12.1/include/python3.12'
SO = '_zope_interface_coptimizations.cpython-312-x86_64-linux-gnu.so'


def sh(cmd, **kw):
    return subprocess.run(cmd, shell=isinstance(cmd, str), capture_output=True, text=True, **kw)


def build(wt):
    d = os.path.join(wt, 'src/zope/interface')
    r = sh(['gcc', '-shared', '-fPIC', '-O2', '-g', '-I' + INC, '_zope_interface_coptimizations.c', '-o', SO], cwd=d)
    return r.returncode == 0, r.stderr[-2000:]


def env_for(wt, pure=False):
    e = dict(os.environ, ZI_WT=wt, PYTHONPATH=SITE, PYTHONDONTWRITEBYTECODE='1')
    e.pop('PURE_PYTHON', None)
    if pure:
        e['PURE_PYTHON'] = '1'
    return e


def suite(wt):
    r = sh(['/venv/bin/python', '-m', 'pytest', '-q', '-p', 'no:cacheprovider', '--timeout=900', '-x', '--maxfail=40'],
           cwd=wt, env=env_for(wt))
    tail = r.stdout.strip().splitlines()[-1] if r.stdout.strip() else r.stderr[-300:]
    m = re.search(r'(\d+) failed, (\d+) passed', tail)
    return (int(m.group(2)), int(m.group(1))) if m else (None, None), tail


def demo(wt, path, pure):
    r = sh(['/venv/bin/python', path], cwd=wt, env=env_for(wt, pure), timeout=300)
    return r.returncode, (r.stdout + r.stderr)[-600:]


def cmd_import(src, sid):
    meta = json.load(open(os.path.join(src, 'meta.json')))
    wt = '/tmp/wt-verify-%d' % os.getpid()
    sh(['git', '-C', REPO, 'worktree', 'remove', '--force', wt])
    r = sh(['git', '-C', REPO, 'worktree', 'add', '-q', '--detach', wt, 'HEAD'])
    assert r.returncode == 0, r.stderr
    out = {'checked_at_repo_commit': sh(['git', '-C', REPO, 'rev-parse', '--short', 'HEAD']).stdout.strip()}
    try:
        impl = meta.get('implementation', 'both')
        modes = {'both': [False, True], 'c': [False], 'py': [True]}.get(impl, [False, True])
        ok, err = build(wt)
        assert ok, err
        dpath = os.path.join(src, 'demo.py')
        out['demo_without_patch'] = {('py' if p else 'c'): demo(wt, dpath, p)[0] for p in modes}
        r = sh(['git', '-C', wt, 'apply', os.path.join(src, 'patch.diff')])
        if r.returncode != 0:
            print('patch does not apply to current HEAD:', r.stderr[-500:])
            return 1
        ok, err = build(wt)
        if not ok:
            print('does not compile', err)
            return 1
        (passed, failed), tail = suite(wt)
        out['suite_with_patch'] = tail
        out['demo_with_patch'] = {}
        for p in modes:
            code, txt = demo(wt, dpath, p)
            out['demo_with_patch']['py' if p else 'c'] = code
            out.setdefault('demo_output', txt)
        good = (passed == 1350 and failed == 12 and all(v == 0 for v in out['demo_without_patch'].values())
                and all(v == 1 for v in out['demo_with_patch'].values()))
        print(json.dumps(out, indent=1)[:1500])
        if not good:
            print('REJECTED', sid)
            return 1
        dst = os.path.join(VERIF, 'seeded', sid)
        os.makedirs(dst, exist_ok=True)
        for f in ('patch.diff', 'demo.py'):
            shutil.copyfile(os.path.join(src, f), os.path.join(dst, f))
        meta['confirmed'] = out
        meta['what_i_ran'] = ('scratch worktree of /repo HEAD: demo exits 0 without the patch; git apply patch.diff, rebuild the C '
                              'extension, full test suite (1350 passed / 12 environmental failures = baseline), demo exits 1')
        json.dump(meta, open(os.path.join(dst, 'meta.json'), 'w'), indent=1)
        print('KEPT', dst)
        return 0
    finally:
        sh(['git', '-C', REPO, 'worktree', 'remove', '--force', wt])
        shutil.rmtree(wt, ignore_errors=True)


def cmd_run(sid, prop, tier='quick', scale=None):
    """Run ./check <prop> <tier> against a scratch worktree of /repo HEAD with the patch applied (ZISIM_REPO points the
    build step at it), so /repo itself is never touched and several changes can be tried at the same time."""
    patch = os.path.join(VERIF, 'seeded', sid, 'patch.diff')
    wt = '/tmp/wt-run-%d' % os.getpid()
    sh(['git', '-C', REPO, 'worktree', 'remove', '--force', wt])
    r = sh(['git', '-C', REPO, 'worktree', 'add', '-q', '--detach', wt, 'HEAD'])
    assert r.returncode == 0, r.stderr
    t0 = time.time()
    try:
        r = sh(['git', '-C', wt, 'apply', patch])
        if r.returncode != 0:
            print('patch does not apply:', r.stderr[-400:])
            return None
        e = dict(os.environ, ZISIM_REPO=wt)
        if scale:
            e['ZISIM_SCALE'] = str(scale)
        e['ZISIM_EVIDENCE_DIR'] = '/tmp/zisim-seeded-evidence-%d' % os.getpid()
        e['ZISIM_REPLAY_DIR'] = e['ZISIM_EVIDENCE_DIR']
        r = sh(['./check', prop, tier], cwd=VERIF, env=e)
        shutil.rmtree(e['ZISIM_EVIDENCE_DIR'], ignore_errors=True)
    finally:
        sh(['git', '-C', REPO, 'worktree', 'remove', '--force', wt])
        shutil.rmtree(wt, ignore_errors=True)
    lines = [l for l in r.stdout.splitlines() if l.startswith('VIOLATION') or 'fingerprint=' in l]
    return {'exit': r.returncode, 'wall_s': round(time.time() - t0, 1), 'lines': lines[:6],
            'tail': r.stdout.strip().splitlines()[-3:]}


def cmd_table(results_files):
    """markdown table: one row per seeded change, from its meta.json and the given RESULTS-*.json files"""
    res = {}
    for f in results_files:
        for r in json.load(open(f)):
            res.setdefault(r['id'], []).append(r)
    print('| change | impl | what it does (first sentence of its author\'s summary) | result (first fingerprint, instances in the quick batch) |')
    print('|---|---|---|---|')
    for sid in sorted(os.listdir(os.path.join(VERIF, 'seeded'))):
        mp = os.path.join(VERIF, 'seeded', sid, 'meta.json')
        if not os.path.exists(mp):
            continue
        meta = json.load(open(mp))
        summ = re.split(r'(?<=[.:;])\s', (meta.get('summary') or '').strip())[0][:230].replace('|', '/')
        cells = []
        for r in res.get(sid, []):
            lines = [l for l in (r['result'] or {}).get('lines', []) if 'fingerprint=' in l]
            tot = sum(int(x) for l in lines for x in re.findall(r'instances=(\d+)', l))
            fp = re.sub(r'.*fingerprint=', '', lines[0]).split(' instances=')[0][:90].replace('|', '/') if lines else ''
            cells.append('%s %s%s' % (r['property'], 'caught: `%s` (%d)' % (fp, tot) if r['caught'] else '**missed**', ''))
        print('| %s | %s | %s | %s |' % (sid, meta.get('implementation', '?'), summ, '; '.join(cells) or 'not run'))
    return 0


def main(argv):
    if argv[0] == 'table':
        return cmd_table(argv[1:])
    if argv[0] == 'import':
        return cmd_import(argv[1], argv[2])
    if argv[0] == 'run':
        res = cmd_run(argv[1], argv[2], *(argv[3:4]))
        print(json.dumps(res, indent=1))
        return 0
    if argv[0] == 'runall':
        tier = argv[1] if len(argv) > 1 else 'quick'
        only = argv[2:] 
        rows = []
        for sid in sorted(os.listdir(os.path.join(VERIF, 'seeded'))):
            mp = os.path.join(VERIF, 'seeded', sid, 'meta.json')
            if not os.path.exists(mp) or (only and not any(o in sid for o in only)):
                continue
            meta = json.load(open(mp))
            props = meta.get('check_with') or [meta['property']]
            for prop in props:
                res = cmd_run(sid, prop, tier)
                caught = bool(res and res['exit'] == 1)
                rows.append((sid, prop, caught, res))
                print('%-14s %-4s %s %5.1fs %s' % (sid, prop, 'CAUGHT' if caught else 'MISSED', res['wall_s'] if res else 0,
                                                  (res['lines'][:1] if res else '')), flush=True)
        json.dump([{'id': a, 'property': b, 'caught': c, 'result': d} for a, b, c, d in rows],
                  open(os.path.join(VERIF, 'seeded', 'RESULTS-%s%s.json' % (tier, ('-' + '_'.join(only)) if only else '')), 'w'), indent=1)
        return 0


if __name__ == '__main__':
    sys.exit(main(sys.argv[1:]))
