#!/venv/bin/python
"""(Re)generate mutants/<name>/{patch.diff,meta.json}: the mutations quoted as "Demonstrated:" in properties.jsonl, and the
reverse of every fix: commit in /repo (written against the current HEAD so that they apply).  Uses a scratch worktree under /tmp."""
import json, os, subprocess, sys, shutil
VERIF = os.path.dirname(os.path.dirname(os.path.abspath(__file__)))
REPO = '/repo'
WT = '/tmp/wt-mkmutants'
A = 'src/zope/interface/adapter.py'
I = 'src/zope/interface/interface.py'
D = 'src/zope/interface/declarations.py'
R = 'src/zope/interface/ro.py'
G = 'src/zope/interface/registry.py'
C = 'src/zope/interface/_zope_interface_coptimizations.c'

M = []
def m(name, prop, what, edits, check_with=None):
    M.append((name, prop, what, edits, check_with))

# ---- quoted in properties.jsonl -----------------------------------------------------------------------
m('demo-C02-implied-interfaces-only', 'C02', 'record only interfaces (not class specifications) in the implied set',
  [(I, "        for ancestor in ancestors:\n            # We directly imply our ancestors:\n            implied[ancestor] = ()",
       "        for ancestor in ancestors:\n            # We directly imply our ancestors:\n            if isinstance(ancestor, InterfaceClass) or ancestor is self:\n                implied[ancestor] = ()")])
m('demo-C04-reverse-later-positions', 'C04', 'reverse the resolution-order walk for every required position after the first',
  [(A, "    if i < l:\n        for spec in specs[i].__sro__:\n            comps = components_get(spec)\n            if comps:\n                r = _lookup(comps, specs, provided, name, i + 1, l)",
       "    if i < l:\n        for spec in (specs[i].__sro__ if i == 0 else reversed(specs[i].__sro__)):\n            comps = components_get(spec)\n            if comps:\n                r = _lookup(comps, specs, provided, name, i + 1, l)")])
m('demo-C05-unsubscribe-no-invalidation', 'C05', 'remove the cache invalidation at the end of unsubscribe',
  [(A, "                self._provided[provided] = n\n\n        self.changed(self)\n\n    def rebuild(self):", "                self._provided[provided] = n\n\n    def rebuild(self):")])
m('demo-C07-most-specific-first', 'C07', 'walk the resolution order most-specific-first in the subscription collector',
  [(A, "    if i < l:\n        for spec in reversed(specs[i].__sro__):\n            comps = components_get(spec)\n            if comps:\n                _subscriptions(",
       "    if i < l:\n        for spec in specs[i].__sro__:\n            comps = components_get(spec)\n            if comps:\n                _subscriptions(")])
m('demo-C08-lookupAll-least-specific-wins', 'C08', 'flip the priority in the lookupAll collector so that the least specific registration wins per name',
  [(A, "    if i < l:\n        for spec in reversed(specs[i].__sro__):\n            comps = components_get(spec)\n            if comps:\n                _lookupAll(comps, specs, provided, result, i + 1, l)",
       "    if i < l:\n        for spec in specs[i].__sro__:\n            comps = components_get(spec)\n            if comps:\n                _lookupAll(comps, specs, provided, result, i + 1, l)")])
m('demo-C09-equal-is-registered', 'C09', 'treat an equal (==) value as already registered, instead of the identical one',
  [(A, "        if components.get(name) is value:\n            return", "        if components.get(name) == value:\n            return")])
m('demo-C12-module-first', 'C12', 'C comparison orders by module first and name second',
  [(C, "    result = PyObject_RichCompareBool(self->__name__, othername, Py_EQ);\n    if (result == 0) {\n        result = PyObject_RichCompareBool(self->__name__, othername, op);\n    } else if (result == 1) {\n        result = PyObject_RichCompareBool(self->__module__, othermod, op);\n    }",
       "    result = PyObject_RichCompareBool(self->__module__, othermod, Py_EQ);\n    if (result == 0) {\n        result = PyObject_RichCompareBool(self->__module__, othermod, op);\n    } else if (result == 1) {\n        result = PyObject_RichCompareBool(self->__name__, othername, op);\n    }")],
  ['C12', 'C10'])
m('demo-C16-unregisterUtility-identity', 'C16', 'compare the component by identity instead of equality in unregisterUtility',
  [(G, "        if (old is None) or ((component is not None) and\n                             (component != old[0])):\n            return False\n\n        if component is None:\n            component = old[0]",
       "        if (old is None) or ((component is not None) and\n                             (component is not old[0])):\n            return False\n\n        if component is None:\n            component = old[0]")])
# ---- the reverse of every fix -------------------------------------------------------------------------------
m('revert-F1-stale-shared-provides', 'C01', 'share an instance declaration from which redundant interfaces were stripped (defect F1)',
  [(D, "        if len(kept) != len(interfaces):\n            key = (interfaces, kept)", "        if len(kept) != len(interfaces):\n            key = interfaces")])
m('revert-F2-is_consistent', 'C03', 'is_consistent never merges the leaf (defect F2)',
  [(R, "    resolver.mro()\n    return not resolver.had_inconsistency", "    return not resolver.had_inconsistency")])
m('revert-F3-push-ro', 'C06', 'AdapterRegistry keeps its ro when a base registry is re-based (defect F3, push flavour)',
  [(A, "            self.ro = ro.ro(self)\n\n        super().changed(originally_changed)\n\n        for sub in", "            pass\n\n        super().changed(originally_changed)\n\n        for sub in")])
m('revert-F3-verifying-ro', 'C06', 'VerifyingAdapterRegistry keeps its ro when a base registry is re-based (defect F3, verifying flavour)',
  [(A, "            with self._required_lock:\n                registry.ro = ro.ro(registry)\n                super().changed(originally_changed)\n            return", "            pass")])
m('revert-F4-rebuild-subregistries', 'C06', 'rebuild() resets _v_subregistries (defect F4)',
  [(A, "        if '_v_subregistries' not in self.__dict__:\n            self._v_subregistries = weakref.WeakKeyDictionary()", "        self._v_subregistries = weakref.WeakKeyDictionary()")],
  ['C06', 'C05'])
m('revert-F5-borrowed-cache', 'C11', 'C _lookup gives up its reference to the cache before the uncached callback and stores through the dangling pointer afterwards (defect F5)',
  [(C, "        result = PyObject_CallMethodObjArgs(\n          OBJECT(self), str_uncached_lookup, required, provided, name, NULL);\n        if (result == NULL) {\n            Py_DECREF(cache);\n            Py_DECREF(required);\n            return NULL;\n        }\n        status = PyDict_SetItem(cache, key, result);\n        Py_DECREF(cache);",
       "        Py_DECREF(cache);\n        result = PyObject_CallMethodObjArgs(\n          OBJECT(self), str_uncached_lookup, required, provided, name, NULL);\n        if (result == NULL) {\n            Py_DECREF(required);\n            return NULL;\n        }\n        status = PyDict_SetItem(cache, key, result);")])
m('revert-F17-borrowed-cache-while-hashing-the-key', 'C11', 'C _subcache / _getcache hand out borrowed cache dictionaries and probe them while hashing the name / provided / key runs Python code (defect F17)',
  'revert:815ebd2')
m('revert-F6-no-lock', 'C11', 'changed()/_subscribe() of a lookup object race between threads (defect F6)',
  [(A, "        with self._required_lock:\n            super().changed(None)\n            for r in tuple(self._required.keys()):\n                r = r()\n                if r is not None:\n                    r.unsubscribe(self)\n            self._required.clear()",
       "        super().changed(None)\n        for r in self._required.keys():\n            r = r()\n            if r is not None:\n                r.unsubscribe(self)\n        self._required.clear()"),
   (A, "        with self._required_lock:\n            _refs = self._required\n            for r in required:\n                ref = r.weakref()\n                if ref not in _refs:\n                    r.subscribe(self)\n                    _refs[ref] = 1",
       "        _refs = self._required\n        for r in required:\n            ref = r.weakref()\n            if ref not in _refs:\n                r.subscribe(self)\n                _refs[ref] = 1")])
m('revert-F7-adapt-stale-length', 'C14', 'C __adapt__ indexes adapter_hooks with a stale length (defect F7)',
  [(C, "    for (i = 0; i < PyList_GET_SIZE(adapter_hooks); i++) {\n        PyObject* hook = PyList_GET_ITEM(adapter_hooks, i);\n        Py_INCREF(hook);\n        adapter = PyObject_CallObject(hook, args);\n        Py_DECREF(hook);",
       "    Py_ssize_t l = PyList_GET_SIZE(adapter_hooks);\n    for (i = 0; i < l; i++) {\n        adapter = PyObject_CallObject(PyList_GET_ITEM(adapter_hooks, i), args);")],
  ['C14', 'C10'])
m('revert-F8-only-pickle', 'C13', 'a class specification declared with the only forms reduces to implementedBy(None) (defect F8)',
  [(D, "        inherit = self.inherit\n        if inherit is None:\n            inherit = self._only_for\n        return implementedBy, (inherit, )", "        return implementedBy, (self.inherit, )")])
m('revert-F9-namesAndDescriptions', 'C15', 'namesAndDescriptions(all=True) recurses over __bases__ (defect F9)',
  [(I, "        for iface in self.__iro__[::-1]:\n            r.update(iface.namesAndDescriptions())", "        for base in self.__bases__[::-1]:\n            r.update(dict(base.namesAndDescriptions(all)))")])
m('revert-F11b-swallowed-hash-error', 'C10', 'C isOrExtends swallows the error from hashing its argument (defect F11b)',
  [(C, "    if (PyDict_GetItemWithError(implied, other) != NULL)\n        Py_RETURN_TRUE;\n    if (PyErr_Occurred())\n        return NULL;\n    Py_RETURN_FALSE;", "    if (PyDict_GetItem(implied, other) != NULL)\n        Py_RETURN_TRUE;\n    Py_RETURN_FALSE;")])
m('revert-F12-subscribe-after-compute', 'C11', 'uncached lookups subscribe to the required specifications after computing (defect F12)',
  [(A, "        self._subscribe(*required)\n        result = None\n        order = len(required)", "        result = None\n        order = len(required)"),
   (A, "            if result is not None:\n                break\n\n        return result", "            if result is not None:\n                break\n\n        self._subscribe(*required)\n\n        return result"),
   (A, "        # See _uncached_lookup.\n        self._subscribe(*required)\n        order = len(required)\n        result = {}", "        order = len(required)\n        result = {}"),
   (A, "            _lookupAll(components, required, extendors, result, 0, order)\n\n        return tuple(result.items())", "            _lookupAll(components, required, extendors, result, 0, order)\n\n        self._subscribe(*required)\n\n        return tuple(result.items())")])

m('revert-F13-inherited-custom-adapt-flag', 'C14', 'a sub-interface with interface methods of its own loses the _CALL_CUSTOM_ADAPT flag (defect F13)',
  [(I, "            if (\n                '__adapt__' in needs_custom_class or\n                getattr(cls, '_CALL_CUSTOM_ADAPT', None)\n            ):", "            if '__adapt__' in needs_custom_class:")],
  ['C14', 'C10'])

m('revert-F11e-providedBy-swallows', 'C10', 'C providedBy clears every exception from __provides__ on the fallback path (defect F11e)',
  [(C, "    result = PyObject_GetAttr(ob, str__provides__);\n    if (result == NULL) {\n        if (!PyErr_ExceptionMatches(PyExc_AttributeError)) {\n            /* Propagate non-AttributeErrors */\n            Py_DECREF(cls);\n            return NULL;\n        }\n",
       "    result = PyObject_GetAttr(ob, str__provides__);\n    if (result == NULL) {\n")])

m('own-C11-leak-required-on-error-path', 'C11', 'C _lookup forgets Py_DECREF(required) when the uncached callback raises (my own mutant for the error-path reference balance)',
  [(C, "        if (result == NULL) {\n            Py_DECREF(cache);\n            Py_DECREF(required);\n            return NULL;\n        }\n        status = PyDict_SetItem(cache, key, result);",
       "        if (result == NULL) {\n            Py_DECREF(cache);\n            return NULL;\n        }\n        status = PyDict_SetItem(cache, key, result);")])

m('revert-F14-leak-required-on-failed-cache-probe', 'C11', 'C _lookupAll returns without releasing the required tuple when the cache probe fails (defect F14)',
  [(C, "    cache = _subcache(self->_mcache, provided);\n    if (cache == NULL) {\n        Py_DECREF(required);\n        return NULL;\n    }", "    cache = _subcache(self->_mcache, provided);\n    if (cache == NULL)\n        return NULL;")])
m('revert-F11c-swallowed-hash-error-in-lookup', 'C10', 'C _lookup cache probe swallows the error from hashing the key (defect F11c)',
  [(C, "    result = PyDict_GetItemWithError(cache, key);\n    if (result == NULL && PyErr_Occurred()) {\n        /* e.g. an unhashable element of `required` */\n        Py_DECREF(cache);\n        Py_DECREF(required);\n        return NULL;\n    }\n", "    result = PyDict_GetItem(cache, key);\n")])

m('revert-F15-verify-before-first-changed', 'C11', 'Python VerifyingBase has no snapshot defaults: a lookup during rebuild() raises AttributeError (defect F15)',
  [(A, "    _verify_ro = ()\n    _verify_generations = None\n\n    def changed(self, originally_changed):\n        LookupBaseFallback.changed(self, originally_changed)  # noqa F821", "    def changed(self, originally_changed):\n        LookupBaseFallback.changed(self, originally_changed)  # noqa F821")])

m('revert-F16-unguarded-dependents-creation', 'C11', 'Specification.dependents creates its map without a lock (defect F16; 1 in 60 000 thread runs: detected by the thorough tier, not reliably by the quick tier)',
  [(I, "            with _dependents_lock:\n                if self._dependents is None:\n                    self._dependents = weakref.WeakKeyDictionary()", "            self._dependents = weakref.WeakKeyDictionary()")])

def sh(*a, **k):
    return subprocess.run(a, capture_output=True, text=True, **k)

sh('git', '-C', REPO, 'worktree', 'remove', '--force', WT)
assert sh('git', '-C', REPO, 'worktree', 'add', '-q', '--detach', WT, 'HEAD').returncode == 0
head = sh('git', '-C', REPO, 'rev-parse', '--short', 'HEAD').stdout.strip()
try:
    for name, prop, what, edits, check_with in M:
        sh('git', '-C', WT, 'checkout', '--', '.')
        ok = True
        if isinstance(edits, str) and edits.startswith('revert:'):
            r = sh('git', '-C', WT, 'revert', '--no-commit', edits.split(':', 1)[1])
            if r.returncode != 0:
                print('!! %s: %s' % (name, r.stderr[-300:])); sh('git', '-C', WT, 'revert', '--abort'); continue
            sh('git', '-C', WT, 'reset', '-q')
            edits = []
        for f, old, new in edits:
            p = os.path.join(WT, f)
            s = open(p).read()
            if s.count(old) != 1:
                print('!! %s: anchor found %d times in %s' % (name, s.count(old), f)); ok = False; break
            open(p, 'w').write(s.replace(old, new))
        if not ok:
            continue
        d = os.path.join(VERIF, 'mutants', name)
        os.makedirs(d, exist_ok=True)
        open(os.path.join(d, 'patch.diff'), 'w').write(sh('git', '-C', WT, 'diff').stdout)
        meta = {'property': prop, 'summary': what, 'generated_against': head}
        if check_with:
            meta['check_with'] = check_with
        if name == 'revert-F16-unguarded-dependents-creation':
            meta['expected_miss'] = True      # about 1 in 60 000 thread runs: thorough tier only
        json.dump(meta, open(os.path.join(d, 'meta.json'), 'w'), indent=1)
        print('ok', name)
finally:
    sh('git', '-C', REPO, 'worktree', 'remove', '--force', WT)
    shutil.rmtree(WT, ignore_errors=True)
