"""Snapshot /repo's working tree and compile the C accelerator from it.

The snapshot directory is keyed by the SHA-256 of the sources, so an edited
/repo always gets a fresh build and an unchanged one is reused.  Nothing is
kept under /tmp.
"""
import hashlib
import os
import shutil
import subprocess
import sys
import sysconfig
import time

VERIF = os.path.dirname(os.path.dirname(os.path.abspath(__file__)))
REPO = os.environ.get('ZISIM_REPO', '/repo')
BUILD_ROOT = os.path.join(VERIF, '.build')
PYTHON = os.environ.get('ZISIM_PYTHON', '/venv/bin/python')
ASAN_RT = '/usr/lib/llvm-14/lib/clang/14.0.6/lib/linux/libclang_rt.asan-x86_64.so'
CSRC = '_zope_interface_coptimizations.c'
SOEXT = '.cpython-312-x86_64-linux-gnu.so'


def _source_files(repo):
    base = os.path.join(repo, 'src', 'zope', 'interface')
    out = []
    for root, dirs, files in os.walk(base):
        dirs[:] = sorted(d for d in dirs if d not in ('tests', '__pycache__'))
        for f in sorted(files):
            if f.endswith(('.py', '.c', '.h')):
                p = os.path.join(root, f)
                out.append((os.path.relpath(p, base), p))
    return base, out


def source_hash(repo=REPO):
    base, files = _source_files(repo)
    h = hashlib.sha256()
    for rel, p in files:
        h.update(rel.encode() + b'\0')
        with open(p, 'rb') as fh:
            h.update(fh.read())
        h.update(b'\0')
    return h.hexdigest()[:20]


def _include_dir():
    out = subprocess.run([PYTHON, '-c', 'import sysconfig;print(sysconfig.get_paths()["include"])'],
                         capture_output=True, text=True, check=True)
    return out.stdout.strip()


def _compile(dst_iface, asan=False):
    inc = _include_dir()
    src = os.path.join(dst_iface, CSRC)
    if asan:
        so = os.path.join(dst_iface, '_zope_interface_coptimizations' + SOEXT)
        cmd = ['clang', '-shared', '-fPIC', '-O1', '-g', '-fno-omit-frame-pointer',
               '-fsanitize=address', '-I' + inc, src, '-o', so]
    else:
        so = os.path.join(dst_iface, '_zope_interface_coptimizations' + SOEXT)
        cmd = ['gcc', '-shared', '-fPIC', '-O2', '-g', '-I' + inc, src, '-o', so]
    r = subprocess.run(cmd, capture_output=True, text=True)
    if r.returncode != 0:
        raise RuntimeError('compile failed: %s\n%s' % (' '.join(cmd), r.stderr[-4000:]))
    return so


def _prune(keep):
    try:
        now = time.time()
        for d in os.listdir(BUILD_ROOT):
            p = os.path.join(BUILD_ROOT, d)
            if d in keep or not os.path.isdir(p):
                continue
            if now - os.path.getmtime(p) > 2 * 3600:
                shutil.rmtree(p, ignore_errors=True)
    except OSError:
        pass


def snapshot(repo=REPO, asan=False):
    """Return the path of a directory that contains ``zope/interface`` built
    from *repo*'s current working tree."""
    h = source_hash(repo) + ('-asan' if asan else '')
    dst = os.path.join(BUILD_ROOT, h)
    marker = os.path.join(dst, '.ok')
    if os.path.exists(marker):
        os.utime(dst, None)
        return dst
    os.makedirs(BUILD_ROOT, exist_ok=True)
    tmp = os.path.join(BUILD_ROOT, 'tmp-%s-%d' % (h, os.getpid()))
    shutil.rmtree(tmp, ignore_errors=True)
    base, files = _source_files(repo)
    for rel, p in files:
        q = os.path.join(tmp, 'zope', 'interface', rel)
        os.makedirs(os.path.dirname(q), exist_ok=True)
        shutil.copyfile(p, q)
    _compile(os.path.join(tmp, 'zope', 'interface'), asan=asan)
    with open(os.path.join(tmp, '.ok'), 'w') as fh:
        fh.write(h)
    try:
        os.rename(tmp, dst)
    except OSError:
        shutil.rmtree(tmp, ignore_errors=True)   # somebody else won the race
        if not os.path.exists(marker):
            raise
    _prune({h, os.path.basename(dst)})
    return dst


if __name__ == '__main__':
    print(snapshot(asan='--asan' in sys.argv))
