"""zisim -- deterministic simulation with fault injection for zope.interface.

The parent process (engine/cli) never imports zope.interface.  Worker
processes import it from a content-addressed snapshot of /repo's working
tree (see build.py) and fork once per simulated run (see worker.py).
"""
