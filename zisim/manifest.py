"""Generate MANIFEST.json from props.py (so the two never drift)."""
import json
import os

from .build import VERIF
from .props import PROPS, NOT_APPLICABLE, PENDING

BASELINE_OFF = ('cd /repo && /venv/bin/python -m pytest -ra -q -p no:cacheprovider --timeout=900 '
                '--continue-on-collection-errors')


def build_manifest():
    checks = []
    for pid in sorted(PROPS):
        p = PROPS[pid]
        checks.append({
            'property_id': pid,
            'quick_cmd': './check %s quick' % pid,
            'thorough_cmd': './check %s thorough' % pid,
            'evidence_file': 'evidence/%s.json' % pid,
            'replay_cmd_template': './check %s --replay {path}' % pid,
            'engine': 'zisim',
            'level_claimed': {'category': p.level, 'text': p.level_text, 'design_ref': p.design_ref},
            'level_note': p.level_note,
            'technique': p.technique,
        })
    na = [{'property_id': k, 'reason': v} for k, v in sorted(NOT_APPLICABLE.items())]
    na += [{'property_id': k, 'reason': v} for k, v in sorted(PENDING.items()) if k not in PROPS]
    return {
        'version': 1,
        'setup_cmd': './check setup',
        'hooks': {
            'guard': 'ZOPE_INTERFACE_VERIF',
            'enable': 'no hooks were needed: every seam (gc, dependents order, sys.settrace pre-emption, user-side stubs, '
                      'environment configuration) is reachable from outside; the guard name is reserved and unused, checks '
                      'snapshot /repo/src into /verif/.build/<hash> and compile the C extension there',
            'baseline_off_cmd': BASELINE_OFF,
            'source_commits': [],
            'add_only': True,
        },
        'engines': [{
            'name': 'zisim',
            'path': 'zisim/',
            'serves_properties': sorted(PROPS),
            'kind_free_text': 'deterministic simulation with fault injection: seeded histories over generated worlds, '
                              'fork-per-run workers importing a content-addressed snapshot of /repo (both implementations), '
                              'scheduled gc/drop/permute/callback/pre-emption faults, executable reference models and '
                              'differential twins as oracles, AddressSanitizer / valgrind memcheck worker configurations for the '
                              'lookup race property, ddmin-minimised replay files',
        }],
        'checks': checks,
        'not_applicable': na,
        'notes': 'Known findings live in known_findings.json (never written at run time). ./check selftest-determinism and '
                 './check selftest-sensitivity are the self-tests described in DESIGN.md 2.5. seeded/ holds independently '
                 'written breaking changes (five rounds, 221) and which check catches each (DESIGN.md 11.1). The C11 check '
                 'additionally needs clang (ASan runtime) and valgrind, both pre-installed; fixes made to /repo are the '
                 'unguarded "fix:" commits listed as fixed in known_findings.json.',
    }


def write():
    m = build_manifest()
    with open(os.path.join(VERIF, 'MANIFEST.json'), 'w') as fh:
        json.dump(m, fh, indent=1)
        fh.write('\n')
    return m
