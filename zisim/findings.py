"""Known findings: committed file, never written at run time."""
import fnmatch
import json
import os

from .build import VERIF

PATH = os.path.join(VERIF, 'known_findings.json')


def load():
    try:
        with open(PATH) as fh:
            return json.load(fh).get('findings', [])
    except FileNotFoundError:
        return []


def match_open(findings, prop, fingerprint):
    """Return the open finding that lists this violation, or None.
    Entries with status 'fixed' suppress nothing."""
    for f in findings:
        if f.get('status') != 'open' or f.get('property') != prop:
            continue
        for pat in f.get('fingerprints', []):
            if fnmatch.fnmatchcase(fingerprint, pat):
                return f
    return None
