"""Differential parts: the same explicit history under several worker configurations.

A 'diff' part names a machine, a mode and a list of configurations
(part.diff); every seed is generated once (by the first configuration's
worker) and executed under all of them; the normalised event logs must be
identical.  A difference is localised by re-running with logs, turned into a
structural fingerprint (the first differing log line with operands stripped),
minimised by ddmin with "the two configurations still differ in the same way"
as the test, and written as a replay file that carries both configurations.
"""
import importlib
import time
import os
import re

from . import ddmin, engine, findings as kf
from .engine import Agg, Config
from .prng import run_seed


def _first_diff(a, b):
    n = min(len(a), len(b))
    for i in range(n):
        if a[i] != b[i]:
            return i, a[i], b[i]
    if len(a) != len(b):
        return n, (a[n] if len(a) > n else '<end of log>'), (b[n] if len(b) > n else '<end of log>')
    return None


def _shape(line):
    """log line -> structural token: op name and result *kinds*, operands stripped"""
    s = re.sub(r"0x[0-9a-f]+", 'ADDR', str(line))
    if ' -> ' in s:                      # `odd` machine: the catalogue label is the structure
        return s[:110]
    toks = s.split(' ')
    # drop the step number, keep the op word; keep exception names and booleans, drop labels / numbers
    toks = [t for t in toks if not re.fullmatch(r"-?\d+", t)]
    head = toks[0] if toks else ''
    tail = ' '.join(toks[1:])
    kinds = re.findall(r"raise:[A-Za-z]+|[A-Z][A-Za-z]+Error|True|False|None|VIOLATION", tail)
    return (head + '|' + ','.join(kinds[:4]))[:120]


def _tag(c):
    return c.impl + ('' if c.iro == 'default' else '/' + c.iro) + ('' if c.hashseed == '0' else '/h' + c.hashseed)


def all_diffs(prop_id, la, lb, ca, cb, cap=12):
    """every differing line when the logs line up (same length), else only the first difference"""
    if len(la) != len(lb):
        fp, d = diff_fingerprint(prop_id, la, lb, ca, cb)
        return [(fp, d)] if fp else []
    out = []
    for i, (x, y) in enumerate(zip(la, lb)):
        if x != y:
            fp = '%s|diff|%s-vs-%s|%s|%s' % (prop_id, _tag(ca), _tag(cb), _shape(x), _shape(y))
            out.append((fp, {'line': i, 'a': str(x)[:400], 'b': str(y)[:400], 'config_a': ca.label(), 'config_b': cb.label()}))
            if len(out) >= cap:
                break
    return out


def diff_fingerprint(prop_id, la, lb, ca, cb):
    d = _first_diff(la, lb)
    if d is None:
        return None, None
    i, x, y = d
    fp = '%s|diff|%s-vs-%s|%s|%s' % (prop_id, _tag(ca), _tag(cb), _shape(x), _shape(y))
    return fp, {'line': i, 'a': str(x)[:400], 'b': str(y)[:400], 'config_a': ca.label(), 'config_b': cb.label()}


def _run_logs(pool, machine, mode, cfgs, program, timeout):
    out = []
    for c in cfgs:
        out.append(engine.run_program(pool, c, machine, mode, program, want_log=True, timeout=timeout))
    return out


def compare_program(pool, prop_id, part, program, ca, cb):
    """-> (fingerprint, detail) of the first difference, or (None, None); crashes count as differences"""
    r = compare_program_all(pool, prop_id, part, program, ca, cb)
    return r[0] if r else (None, None)


def compare_program_all(pool, prop_id, part, program, ca, cb):
    """-> list of (fingerprint, detail)"""
    ra, rb = _run_logs(pool, part.machine, part.mode, [ca, cb], program, part.timeout)
    for r, c in ((ra, ca), (rb, cb)):
        if r.get('harness_error'):
            return [('HARNESS', {'error': r['harness_error'][-600:], 'config': c.label()})]
        if r.get('timeout'):
            return [('HARNESS', {'error': 'timeout', 'config': c.label()})]
    if ra.get('crash') is not None or rb.get('crash') is not None:
        if (ra.get('crash') is not None) != (rb.get('crash') is not None) or ra.get('crash') != rb.get('crash'):
            return [('%s|diff|crash|%s:%s|%s:%s' % (prop_id, ca.impl, ra.get('crash'), cb.impl, rb.get('crash')),
                     {'a': ra.get('crash'), 'b': rb.get('crash'), 'config_a': ca.label(), 'config_b': cb.label()})]
        return []
    return all_diffs(prop_id, ra.get('log') or [], rb.get('log') or [], ca, cb)


def run_part(pool, prop, part, verif_seed, n, budget, extra_cov):
    import time
    cfgs = part.diff
    seeds = [run_seed(verif_seed, prop.id, part.machine, part.name, i) for i in range(n)]
    deadline = time.monotonic() + budget * 3
    # every seed under every configuration, digests kept
    plan = [(c, seeds) for c in cfgs]
    agg = engine.run_seeds(pool, part.machine, part.mode, plan, batch=part.batch, deadline=deadline, timeout=part.timeout,
                           keep_digests=True, want_sample_every=max(1, (n // part.batch) // 2))
    base = cfgs[0]
    suspects = []
    compared = 0
    crashed = {}
    for cfg, item, res in agg.crashes:
        crashed[(cfg.label(), item.get('seed'))] = res.get('crash')
    for s in seeds:
        d0 = agg.digests.get((base.label(), s))
        for c in cfgs[1:]:
            d1 = agg.digests.get((c.label(), s))
            ca, cb = crashed.get((base.label(), s)), crashed.get((c.label(), s))
            if ca is not None or cb is not None:
                if ca != cb:
                    suspects.append((s, c))
                continue
            if d0 is None or d1 is None:
                continue
            compared += 1
            if d0 != d1:
                suspects.append((s, c))
    # crashes that happen identically in every configuration are still reported by the ordinary path
    agg.crashes = [x for x in agg.crashes if all(crashed.get((c.label(), x[1].get('seed'))) == x[2].get('crash') for c in cfgs)]
    extra_cov['programs'] = extra_cov.get('programs', 0) + len(seeds)
    extra_cov['program_executions_compared'] = extra_cov.get('program_executions_compared', 0) + compared
    extra_cov['disagreements_checked'] = extra_cov.get('disagreements_checked', 0) + agg.events
    extra_cov.setdefault('configurations_compared', [])
    extra_cov['configurations_compared'] += [[base.label(), c.label()] for c in cfgs[1:]]
    mod = importlib.import_module('zisim.machines.' + part.machine)
    groups = {}
    for s, c in suspects[:400]:
        program = mod.generate(s, part.mode)
        diffs = compare_program_all(pool, prop.id, part, program, base, c)
        if not diffs:
            agg.harness_errors.append((c.label(), {'seed': s}, 'digests differed but logs are identical (non-determinism?)'))
            continue
        for fp, detail in diffs:
            if fp == 'HARNESS':
                agg.harness_errors.append((c.label(), {'seed': s}, str(detail)))
                continue
            groups.setdefault(fp, []).append((s, c, program, detail))
    agg.diff_groups = groups

    def handler(pool, prop, part, known, report, out):
        from . import cli
        n_new = 0
        for fp in sorted(groups):
            insts = groups[fp]
            f = kf.match_open(known, prop.id, fp)
            if f is not None:
                report['known'].setdefault(f['id'], [0, f])[0] += len(insts)
                continue
            n_new += 1
            report['new'] += len(insts)
            s, c, program, detail = min(insts, key=lambda t: len(t[2].get('ops') or []))
            minimised = program
            if n_new <= 3:
                def tester(programs):
                    res = []
                    for p in programs:
                        res.append(any(fp2 == fp for fp2, _d in compare_program_all(pool, prop.id, part, p, base, c)))
                    return res
                try:
                    if tester([program])[0]:
                        minimised = ddmin.minimise_program(program, tester, cli.get_simplifiers(part.machine), deadline=time.monotonic() + 40)
                except Exception as e:     # noqa
                    report['notes'].append('diff minimisation failed: %r' % (e,))
            path = cli.write_replay(prop.id, part, base, fp, 'diff', s, minimised, detail,
                                    {'diff_config': c.as_dict(), 'original_ops': len(program.get('ops') or []),
                                     'minimised_ops': len(minimised.get('ops') or []), 'instances_in_batch': len(insts)})
            report['violations'].append({'fingerprint': fp, 'replay': path, 'instances': len(insts), 'config': base.label() + ' vs ' + c.label(),
                                         'detail': detail})
            out('  divergence fingerprint=%s instances=%d ops %d -> %d' % (fp, len(insts), len(program.get('ops') or []),
                                                                          len(minimised.get('ops') or [])))
            out('    %s: %s' % (base.label(), (detail or {}).get('a')))
            out('    %s: %s' % (c.label(), (detail or {}).get('b')))
            out('VIOLATION property=%s replay=%s' % (prop.id, path))
    agg.extra_violation_handler = handler
    # ordinary (oracle) violations of other properties seen in these runs are not this part's business
    return agg


def replay_diff(pool, part, doc):
    ca = Config.from_dict(doc['config'])
    cb = Config.from_dict(doc['diff_config'])
    diffs = compare_program_all(pool, doc['property'], part, doc['program'], ca, cb)
    for fp, detail in diffs:
        if fp == doc['fingerprint']:
            return True, {'fingerprint': fp, 'detail': detail}
    return False, {'found': [fp for fp, _d in diffs]}
