"""Self-tests of the simulator (DESIGN.md 2.5).

./check selftest-determinism [n]
    For every seeded part of every property: n seeds (default 300) are executed
      (a) twice in different worker processes,
      (b) with 1 and with 16 workers,
      (c) under PYTHONHASHSEED=0 and another hash seed in fresh interpreters,
    and the SHA-256 digests of the event logs must agree pairwise.  (Agreement
    between the two implementations is not part of the self-test: that is C10.)

./check selftest-sensitivity [name...]
    Every patch under mutants/ (the "Demonstrated:" mutations quoted in
    properties.jsonl, the reverse of every fix: commit in /repo, a few of my own)
    and under seeded/ (independently written breaking changes) is applied to /repo,
    the quick check of the property it targets must exit 1 with a VIOLATION line,
    and the patch is undone.  The table goes to evidence/sensitivity.json.
"""
import json
import os
import subprocess
import sys
import time

from . import build, engine
from .engine import Config, Pool
from .prng import run_seed
from .props import PROPS

VERIF = build.VERIF


def out(*a):
    print(*a, flush=True)


def determinism(argv):
    n = int(argv[0]) if argv else 300
    only = argv[1:] if len(argv) > 1 else None
    bad = 0
    total = 0
    snap = build.snapshot()
    t0 = time.time()
    seen_parts = set()
    for pid in sorted(PROPS):
        if only and pid not in only:
            continue
        for part in PROPS[pid].parts:
            if part.kind == 'enum':
                continue
            sig = (part.machine, json.dumps(part.mode, sort_keys=True))
            if sig in seen_parts:
                continue
            seen_parts.add(sig)
            seeds = [run_seed(7, 'selftest', part.machine, part.name, i) for i in range(n)]
            impls = sorted({c.impl for c, _w in (part.configs or [])} | {c.impl for c in (part.diff or [])}) or ['c']
            for impl in impls[:2]:
                runs = {}
                for tag, cfg, nthreads in (('A/16w/h0', Config(impl, '0'), None), ('B/1w/h0', Config(impl, '0'), 1),
                                           ('C/16w/h4242', Config(impl, '4242'), None)):
                    if nthreads == 1:
                        sub = seeds[:max(20, n // 6)]
                    else:
                        sub = seeds
                    with Pool(snap) as pool:
                        agg = engine.run_seeds(pool, part.machine, part.mode, [(cfg, sub)], batch=25, timeout=part.timeout,
                                               keep_digests=True, nthreads=nthreads)
                    if agg.harness_errors:
                        out('HARNESS-ERROR', str(agg.harness_errors[0])[-500:])
                        return 2
                    runs[tag] = {s: d for (_lbl, s), d in agg.digests.items()}
                base = runs['A/16w/h0']
                for tag in ('B/1w/h0', 'C/16w/h4242'):
                    for s, d in runs[tag].items():
                        total += 1
                        if base.get(s) != d:
                            bad += 1
                            if bad <= 10:
                                out('  NON-DETERMINISTIC %s part=%s impl=%s seed=%d: %s vs %s (%s)' % (pid, part.name, impl, s, base.get(s), d, tag))
                out('  %s %-28s impl=%s seeds=%d compared=%d' % (pid, part.name, impl, n, sum(len(runs[t]) for t in ('B/1w/h0', 'C/16w/h4242'))))
    res = {'comparisons': total, 'mismatches': bad, 'seeds_per_part': n, 'wall_s': round(time.time() - t0, 1),
           'what': 'same seed: two worker processes, 1 vs 16 workers, PYTHONHASHSEED 0 vs 4242; log digests must agree'}
    os.makedirs(os.path.join(VERIF, 'evidence'), exist_ok=True)
    with open(os.path.join(VERIF, 'evidence', 'selftest-determinism.json'), 'w') as fh:
        json.dump(res, fh, indent=1)
    out('determinism: %d comparisons, %d mismatches, %.0fs' % (total, bad, time.time() - t0))
    return 1 if bad else 0


def _sh(cmd, **kw):
    return subprocess.run(cmd, capture_output=True, text=True, **kw)


def sensitivity(argv):
    rows = []
    dirs = []
    for base in ('mutants', 'seeded'):
        d = os.path.join(VERIF, base)
        if os.path.isdir(d):
            for name in sorted(os.listdir(d)):
                if os.path.exists(os.path.join(d, name, 'patch.diff')) and (not argv or any(name.startswith(a) for a in argv)):
                    dirs.append((base, name, os.path.join(d, name)))
    st = _sh(['git', '-C', build.REPO, 'status', '--porcelain', '--untracked-files=no']).stdout.strip()
    if st:
        out('HARNESS-ERROR /repo has local modifications:', st)
        return 2
    missed = 0
    for base, name, path in dirs:
        meta = json.load(open(os.path.join(path, 'meta.json')))
        props = meta.get('check_with') or [meta['property']]
        r = _sh(['git', '-C', build.REPO, 'apply'] + (['-R'] if meta.get('reverse') else []) + [os.path.join(path, 'patch.diff')])
        if r.returncode != 0:
            out('  %-22s patch does not apply: %s' % (name, r.stderr.strip()[-200:]))
            rows.append({'mutant': name, 'set': base, 'applies': False})
            continue
        try:
            for prop in props:
                t0 = time.time()
                env = dict(os.environ, ZISIM_EVIDENCE_DIR='/tmp/zisim-sensitivity-evidence')
                c = _sh([os.path.join(VERIF, 'check'), prop, 'quick'], env=env, cwd=VERIF)
                caught = c.returncode == 1 and 'VIOLATION property=%s' % prop in c.stdout
                fps = [l.strip() for l in c.stdout.splitlines() if 'fingerprint=' in l][:2]
                rows.append({'mutant': name, 'set': base, 'property': prop, 'caught': caught, 'exit': c.returncode,
                             'wall_s': round(time.time() - t0, 1), 'first': fps, 'needs': meta.get('needs', '')[:300]})
                out('  %-22s %-4s %s %5.1fs %s' % (name, prop, 'CAUGHT' if caught else 'MISSED', time.time() - t0, fps[:1]))
                if not caught and not meta.get('expected_miss'):
                    missed += 1
        finally:
            _sh(['git', '-C', build.REPO, 'checkout', '--', '.'])
    with open(os.path.join(VERIF, 'evidence', 'sensitivity.json'), 'w') as fh:
        json.dump({'rows': rows, 'missed': missed}, fh, indent=1)
    out('sensitivity: %d mutants, %d missed' % (len(rows), missed))
    return 1 if missed else 0
