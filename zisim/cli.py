"""./check <property> quick|thorough  |  ./check <property> --replay <file>  |  ./check selftest-*"""
import importlib
import json
import os
import sys
import time
import traceback

from . import build, ddmin, engine, findings as kf
from .engine import Config, Pool, Agg
from .prng import run_seed
from .props import PROPS

VERIF = build.VERIF
EVID = os.environ.get('ZISIM_EVIDENCE_DIR') or os.path.join(VERIF, 'evidence')
REPLAYS = os.environ.get('ZISIM_REPLAY_DIR') or os.path.join(VERIF, 'replays')


def out(*a):
    print(*a, flush=True)


def plan_for(part, prop_id, verif_seed, n):
    tot = sum(w for _, w in part.configs)
    plan = []
    idx = 0
    for ci, (cfg, w) in enumerate(part.configs):
        k = n * w // tot if ci < len(part.configs) - 1 else n - idx
        k = max(k, 1)
        seeds = [run_seed(verif_seed, prop_id, part.machine, part.name, idx + j) for j in range(k)]
        idx += k
        plan.append((cfg, seeds))
    return plan


def crash_fp(prop_id, res):
    sig = res.get('crash')
    if sig == -97:
        return '%s|crash|memcheck-error' % prop_id         # valgrind --error-exitcode=97 --exit-on-first-error=yes
    return '%s|crash|%s' % (prop_id, ('signal-%d' % sig) if sig and sig > 0 else 'abnormal-exit')


def viol_of(prop_id, tags, res):
    """violations of this property in a run result (list of dicts)."""
    tags = tags or [prop_id]
    return [v for v in res.get('violations') or [] if v['property'] in tags]


def make_tester(pool, cfg, part, fingerprint, prop_id):
    def test_many(programs):
        rs = engine.run_programs(pool, cfg, part.machine, part.mode, programs, timeout=part.timeout)
        oks = []
        for r in rs:
            ok = False
            if r.get('crash') is not None:
                ok = crash_fp(prop_id, r) == fingerprint
            elif not r.get('harness_error') and not r.get('timeout'):
                ok = any(v['fingerprint'] == fingerprint for v in r.get('violations') or [])
            oks.append(ok)
        return oks
    return test_many


def get_simplifiers(machine):
    try:
        mod = importlib.import_module('zisim.machines.' + machine)
    except Exception:
        return ()
    s = getattr(mod, 'simplifiers', None)
    return s() if s else ()


def write_replay(prop_id, part, cfg, fingerprint, kind, seed, program, detail, extra=None):
    os.makedirs(REPLAYS, exist_ok=True)
    import hashlib
    tag = hashlib.sha256(fingerprint.encode()).hexdigest()[:8]       # one file per (run, fingerprint): nothing is overwritten
    name = '%s-%s-%s-%s.json' % (prop_id, part.name.replace('+', '_').replace('/', '_'), 'enum' if seed is None else seed, tag)
    path = os.path.join(REPLAYS, name)
    doc = {'property': prop_id, 'machine': part.machine, 'part': part.name, 'mode': part.mode,
           'config': cfg.as_dict(), 'fingerprint': fingerprint, 'kind': kind, 'seed': seed,
           'program': program, 'detail': detail,
           'replay': './check %s --replay %s' % (prop_id, path)}
    if extra:
        doc.update(extra)
    with open(path, 'w') as fh:
        json.dump(doc, fh, indent=1, default=str)
    return path


def find_part(prop, name):
    for p in prop.parts:
        if p.name == name:
            return p
    return prop.parts[0]


def replay(prop_id, path):
    with open(path) as fh:
        doc = json.load(fh)
    prop = PROPS[prop_id]
    part = find_part(prop, doc.get('part'))
    cfg = Config.from_dict(doc['config'])
    with Pool() as pool:
        if doc.get('diff_config'):
            from . import diffcheck
            ok, info = diffcheck.replay_diff(pool, part, doc)
        else:
            mode = doc.get('mode') or part.mode
            r = engine.run_program(pool, cfg, doc['machine'], mode, doc['program'], want_log=True, timeout=60)
            ok = False
            info = r
            if r.get('crash') is not None:
                ok = crash_fp(prop_id, r) == doc['fingerprint']
            elif r.get('harness_error'):
                etype = (str(r['harness_error']).strip().splitlines() or ['?'])[-1].split(':')[0].split('.')[-1].strip()[:40]
                if doc['fingerprint'] == '%s|exception-out-of-the-extension|%s' % (prop_id, etype):
                    ok = True          # (see reclassify_extension_errors: the exception out of the extension is the violation)
                    info = {'exception': etype}
                else:
                    out('HARNESS-ERROR', r['harness_error'])
                    return 2
            else:
                for v in r.get('violations') or []:
                    if v['fingerprint'] == doc['fingerprint']:
                        ok = True
                        info = v
    if ok:
        out('reproduced:', json.dumps(info, default=str)[:1500])
        out('VIOLATION property=%s replay=%s' % (prop_id, path))
        return 1
    out('NOT-REPRODUCED property=%s replay=%s (expected %s)' % (prop_id, path, doc['fingerprint']))
    return 0


def handle_violations(pool, prop, part, agg, known, report):
    """Group by fingerprint; print KNOWN-FINDING or minimise + VIOLATION."""
    prop_id = prop.id
    groups = {}
    for cfg, item, res in agg.violations:
        for v in viol_of(prop_id, part.tags, res):
            groups.setdefault(v['fingerprint'], []).append((cfg, item, res, v))
    for cfg, item, res in agg.crashes:
        fp = crash_fp(prop_id, res)
        groups.setdefault(fp, []).append((cfg, item, res, {'fingerprint': fp, 'kind': 'crash', 'detail': res, 'property': prop_id}))
    n_new = 0
    for fp in sorted(groups):
        insts = groups[fp]
        f = kf.match_open(known, prop_id, fp)
        if f is not None:
            report['known'].setdefault(f['id'], [0, f])[0] += len(insts)
            continue
        n_new += 1
        report['new'] += len(insts)
        cfg, item, res, v = min(insts, key=lambda t: len((t[2].get('program') or {}).get('ops') or []) or 10 ** 6)
        program = res.get('program') or item.get('program')
        if program is None:
            # crash: the child could not return its program; regenerate from the seed
            mod = importlib.import_module('zisim.machines.' + part.machine)
            program = mod.generate(item['seed'], part.mode) if 'seed' in item else item.get('program')
        seed = item.get('seed', program.get('seed') if program else None)
        minimised = program
        if n_new <= 4 and program is not None:
            try:
                tester = make_tester(pool, cfg, part, fp, prop_id)
                if tester([program])[0]:
                    # minimisation is bounded in wall-clock time (a candidate under memcheck can take seconds): what has been
                    # reached when the budget is used up is reported
                    minimised = ddmin.minimise_program(program, tester, get_simplifiers(part.machine), deadline=time.monotonic() + 40)
                else:
                    report['notes'].append('violation %s did not reproduce from its explicit program' % fp)
            except Exception:
                report['notes'].append('minimisation failed: ' + traceback.format_exc()[-500:])
        path = write_replay(prop_id, part, cfg, fp, v.get('kind'), seed, minimised, v.get('detail'),
                            {'original_ops': len((program or {}).get('ops') or []),
                             'minimised_ops': len((minimised or {}).get('ops') or []),
                             'instances_in_batch': len(insts)})
        report['violations'].append({'fingerprint': fp, 'replay': path, 'instances': len(insts),
                                     'config': cfg.label(), 'detail': v.get('detail')})
        out('  violation fingerprint=%s instances=%d config=%s ops %d -> %d' % (
            fp, len(insts), cfg.label(), len((program or {}).get('ops') or []), len((minimised or {}).get('ops') or [])))
        out('VIOLATION property=%s replay=%s' % (prop_id, path))


def reclassify_extension_errors(pool, prop, part, agg, known, report):
    """An exception raised by the C extension has no Python frame inside zope/interface, so inside the child it cannot be told
    from an error of the harness itself and is returned as a harness error.  It can be told apart here: the same seed is run
    again under the Python reference implementation.  If that run is fine, the exception came out of the extension: it is a
    violation (the library raised where it must not), reported with a replay file.  If the reference run fails too, it stays
    a harness error (exit 2, never a VIOLATION line)."""
    done = []
    seen_types = set()
    for h in agg.harness_errors:
        label, item, err = h
        if not item or 'seed' not in item or not label.startswith('c/') or len(done) >= 6:
            continue
        etype = (str(err).strip().splitlines() or ['?'])[-1].split(':')[0].split('.')[-1].strip()[:40]
        if etype in seen_types:
            done.append(h)
            continue
        cfg_c = next((c for c, _w in part.configs if c.label() == label), None)
        if cfg_c is None:
            continue
        cfg_py = Config('py', cfg_c.hashseed, cfg_c.iro)
        a2 = engine.run_seeds(pool, part.machine, part.mode, [(cfg_py, [item['seed']])], batch=1, timeout=part.timeout)
        if a2.harness_errors or a2.timeouts or a2.crashes:
            continue
        seen_types.add(etype)
        done.append(h)
        fp = '%s|exception-out-of-the-extension|%s' % (prop.id, etype)
        if kf.match_open(known, prop.id, fp) is not None:
            continue
        mod = importlib.import_module('zisim.machines.' + part.machine)
        program = mod.generate(item['seed'], part.mode)
        path = write_replay(prop.id, part, cfg_c, fp, 'exception', item['seed'], program, {'traceback': str(err)[-1500:]},
                            {'note': 'the same seed runs without error under the Python reference implementation'})
        report['violations'].append({'fingerprint': fp, 'replay': path, 'instances': 1, 'config': label, 'detail': str(err)[-400:]})
        report['new'] += 1
        out('  violation fingerprint=%s config=%s (the Python reference runs this seed without error)' % (fp, label))
        out('VIOLATION property=%s replay=%s' % (prop.id, path))
    return done


def check(prop_id, tier):
    t0 = time.time()
    prop = PROPS[prop_id]
    verif_seed = int(os.environ.get('VERIF_SEED', '0') or 0)
    out('zisim check property=%s tier=%s VERIF_SEED=%d' % (prop_id, tier, verif_seed))
    snap = build.snapshot()
    out('  snapshot %s (built from %s working tree)' % (os.path.basename(snap), build.REPO))
    known = kf.load()
    report = {'known': {}, 'new': 0, 'violations': [], 'notes': []}
    total = Agg()
    part_summ = []
    harness_bad = []
    extra_cov = {}
    with Pool(snap) as pool:
        if any(cfg.asan and cfg.asan != 'valgrind' for part in prop.parts for cfg, _w in (part.configs or [])):
            pool.asan_snapshot = build.snapshot(asan=True)      # built once, before worker threads could race for it
            out('  sanitizer snapshot %s (clang -fsanitize=address)' % os.path.basename(pool.asan_snapshot))
        only_parts = [x for x in os.environ.get('ZISIM_PARTS', '').split(',') if x]      # development aid; unset in registered commands
        for part in prop.parts:
            if only_parts and part.name not in only_parts:
                continue
            n = part.quick if tier == 'quick' else part.thorough
            budget = part.quick_s if tier == 'quick' else part.thorough_s
            scale = float(os.environ.get('ZISIM_SCALE', '1') or 1)
            n = max(int(n * scale), len(part.configs))
            tp = time.time()
            if part.kind == 'seeds':
                plan = plan_for(part, prop_id, verif_seed, n)
                agg = engine.run_seeds(pool, part.machine, part.mode, plan, batch=part.batch,
                                       deadline=time.monotonic() + budget * 3, timeout=part.timeout,
                                       want_sample_every=max(1, (n // part.batch) // 3))
            elif part.kind == 'enum':
                mod = importlib.import_module('zisim.machines.' + part.machine)
                programs = mod.enum_programs(dict(part.mode, tier=tier))
                agg = engine.run_enum(pool, part.machine, part.mode, part.configs, programs, timeout=part.timeout,
                                      deadline=time.monotonic() + budget * 3)
                extra_cov.setdefault('enumerated_blocks', 0)
                extra_cov['enumerated_blocks'] += len(programs) * len(part.configs)
                extra_cov['enumerated_cases_per_configuration'] = sum(len(p['ops']) for p in programs)
                if not agg.skipped and not agg.harness_errors and not agg.timeouts:
                    extra_cov['exhaustive_subspace'] = mod.ENUM_NOTE
            else:
                from . import diffcheck
                agg = diffcheck.run_part(pool, prop, part, verif_seed, n, budget, extra_cov)
            dt = time.time() - tp
            handle_violations(pool, prop, part, agg, known, report)
            if hasattr(agg, 'extra_violation_handler'):
                agg.extra_violation_handler(pool, prop, part, known, report, out)
            part_summ.append({'part': part.name, 'machine': part.machine, 'mode': part.mode, 'runs': agg.runs,
                              'skipped': agg.skipped, 'wall_s': round(dt, 1),
                              'configs': dict(agg.per_config),
                              'crashes': len(agg.crashes), 'timeouts': len(agg.timeouts)})
            out('  part %-14s runs=%d skipped=%d events=%d states=%d crashes=%d wall=%.1fs' % (
                part.name, agg.runs, agg.skipped, agg.events, len(agg.states), len(agg.crashes), dt))
            if agg.harness_errors:
                reclassified = reclassify_extension_errors(pool, prop, part, agg, known, report)
                harness_bad.extend([h for h in agg.harness_errors if h not in reclassified][:3])
            if agg.timeouts:
                harness_bad.append(('timeout', agg.timeouts[:3], 'run exceeded its wall/step budget'))
            # merge
            total.runs += agg.runs
            total.events += agg.events
            total.ops += agg.ops
            total.probes.update(agg.probes)
            total.faults.update(agg.faults)
            total.states |= agg.states
            total.sigs |= agg.sigs
            total.samples.extend(agg.samples[:2])
            total.skipped += agg.skipped
            total.per_config.update(agg.per_config)
    wall = time.time() - t0
    for fid, (cnt, f) in sorted(report['known'].items()):
        out('KNOWN-FINDING: property=%s %s [%s, %d instance(s) in this batch]' % (prop_id, f['what'], fid, cnt))
    zero = sorted(k for k in getattr(prop, 'expected_probes', []) if not total.probes.get(k))
    for k in zero:
        out('  warning: probe %r stuck at zero' % k)
    nviol = len(report['violations'])
    cov = {
        'evaluations': total.runs,
        'distinct_nontrivial': len(total.states),
        'rule': prop.rule,
        'samples': total.samples[:4] or [{'note': 'no sample captured'}],
        'ops_executed': total.ops,
        'logical_time_events': total.events,
        'runs_per_hour': int(total.runs / max(wall, 1e-6) * 3600),
        'faults_fired': dict(total.faults),
        'probes': dict(total.probes),
        'probes_stuck_at_zero': zero,
        'distinct_schedule_signatures': len(total.sigs),
        'configs': dict(total.per_config),
        'parts': part_summ,
        'skipped_runs_deadline': total.skipped,
        'known_findings_seen': {fid: cnt for fid, (cnt, f) in report['known'].items()},
        'violations_detail': report['violations'][:10],
        'notes': report['notes'],
        'exhaustive': False,
        'snapshot': os.path.basename(snap),
    }
    cov.update(extra_cov)
    if prop.level == 'translation_validation':
        cov.setdefault('programs', total.runs)
        cov.setdefault('disagreements_checked', total.events)
    ev = {'property_id': prop_id, 'tier': tier, 'seed': verif_seed, 'level': prop.level,
          'coverage': cov, 'assumptions': prop.assumptions, 'wall_s': round(wall, 2), 'violations': nviol}
    os.makedirs(EVID, exist_ok=True)
    with open(os.path.join(EVID, prop_id + '.json'), 'w') as fh:
        json.dump(ev, fh, indent=1, default=str)
    if harness_bad:
        for hb in harness_bad[:5]:
            out('HARNESS-ERROR', str(hb)[-700:])
        if not nviol:
            return 2
    if nviol:
        return 1
    if total.runs == 0:
        out('HARNESS-ERROR no runs executed')
        return 2
    out('OK property=%s runs=%d states=%d wall=%.1fs' % (prop_id, total.runs, len(total.states), wall))
    return 0


def main(argv=None):
    argv = list(sys.argv[1:] if argv is None else argv)
    if not argv:
        out('usage: ./check <property> [quick|thorough] | ./check <property> --replay <file> | ./check selftest-determinism|selftest-sensitivity|setup')
        return 2
    cmd = argv[0]
    try:
        if cmd == 'setup':
            snap = build.snapshot()
            with Pool(snap) as pool:
                for cfg in (Config('c'), Config('py')):
                    w = pool._get(cfg)
                    out('worker ok', cfg.label(), w.hello)
                    pool._put(w)
            out('setup ok', snap)
            return 0
        if cmd == 'dev':
            from . import dev
            return dev.main(argv[1:])
        if cmd == 'manifest':
            from . import manifest
            m = manifest.write()
            out('MANIFEST.json written: %d checks, %d not_applicable' % (len(m['checks']), len(m['not_applicable'])))
            return 0
        if cmd == 'selftest-determinism':
            from . import selftest
            return selftest.determinism(argv[1:])
        if cmd == 'selftest-sensitivity':
            from . import selftest
            return selftest.sensitivity(argv[1:])
        if cmd in PROPS:
            if '--replay' in argv:
                return replay(cmd, argv[argv.index('--replay') + 1])
            tier = argv[1] if len(argv) > 1 else os.environ.get('VERIF_TIER', 'quick')
            if tier not in ('quick', 'thorough'):
                tier = 'quick'
            return check(cmd, tier)
        out('unknown command', cmd)
        return 2
    except engine.HarnessError as e:
        out('HARNESS-ERROR', e)
        return 2
    except Exception:
        out('HARNESS-ERROR', traceback.format_exc())
        return 2


if __name__ == '__main__':
    sys.exit(main())
