"""Worker server: imports zope.interface from a snapshot, then forks once per run.

Protocol: one JSON request per line on stdin, one JSON response per line on the
duplicated stdout descriptor.  Anything the library or a stub prints goes to
stderr.  The child of each fork returns its result over a pipe; a child that
dies by a signal (C11) or exceeds its wall budget is reported as such.
"""
import gc
import importlib
import json
import os
import select
import signal
import sys
import time
import traceback


def _bootstrap(snapshot):
    import zope
    p = os.path.join(snapshot, 'zope')
    if p not in zope.__path__:
        zope.__path__.insert(0, p)
    import zope.interface
    got = os.path.dirname(os.path.abspath(zope.interface.__file__))
    want = os.path.join(p, 'interface')
    if os.path.realpath(got) != os.path.realpath(want):
        raise RuntimeError('imported zope.interface from %s, wanted %s' % (got, want))
    import logging
    lg = logging.getLogger('zope.interface.ro')
    lg.addHandler(logging.NullHandler())
    lg.propagate = False
    from zope.interface import _compat
    impl = 'c' if _compat._should_attempt_c_optimizations() and _compat._c_optimizations_available() else 'py'
    want_impl = os.environ.get('ZISIM_IMPL')
    if want_impl and want_impl != impl:
        raise RuntimeError('implementation mismatch: wanted %s got %s' % (want_impl, impl))
    return impl


def _run_child(mod, req, item, wfd):
    try:
        res = mod.run(req, item)
    except BaseException:
        res = {'harness_error': traceback.format_exc()[-3000:]}
    try:
        data = json.dumps(res, default=str).encode()
    except BaseException:
        data = json.dumps({'harness_error': 'unserialisable result: ' + traceback.format_exc()[-2000:]}).encode()
    off = 0
    while off < len(data):
        off += os.write(wfd, data[off:off + 65536])
    os.close(wfd)


def _one(mod, req, item, timeout):
    r, w = os.pipe()
    sys.stderr.flush()
    pid = os.fork()
    if pid == 0:
        os.close(r)
        code = 0
        try:
            _run_child(mod, req, item, w)
        except BaseException:
            code = 3
        os._exit(code)
    os.close(w)
    chunks = []
    deadline = time.monotonic() + timeout
    killed = False
    while True:
        left = deadline - time.monotonic()
        if left <= 0:
            os.kill(pid, signal.SIGKILL)
            killed = True
            break
        rl, _, _ = select.select([r], [], [], left)
        if not rl:
            continue
        b = os.read(r, 1 << 16)
        if not b:
            break
        chunks.append(b)
    os.close(r)
    _, status = os.waitpid(pid, 0)
    if killed:
        return {'timeout': True}
    if os.WIFSIGNALED(status):
        return {'crash': os.WTERMSIG(status)}
    code = os.WEXITSTATUS(status)
    data = b''.join(chunks)
    if code != 0 or not data:
        return {'crash': -code if code else -99, 'partial': data[-300:].decode('utf8', 'replace')}
    try:
        return json.loads(data)
    except ValueError:
        return {'harness_error': 'bad child json: %r' % data[-300:]}


def main():
    snapshot = sys.argv[1]
    proto = os.fdopen(os.dup(1), 'w')
    os.dup2(2, 1)
    try:
        impl = _bootstrap(snapshot)
    except BaseException:
        proto.write(json.dumps({'hello': False, 'error': traceback.format_exc()[-3000:]}) + '\n')
        proto.flush()
        return 2
    gc.disable()
    proto.write(json.dumps({'hello': True, 'impl': impl, 'pid': os.getpid(),
                            'hashseed': os.environ.get('PYTHONHASHSEED')}) + '\n')
    proto.flush()
    mods = {}
    for line in sys.stdin:
        line = line.strip()
        if not line:
            continue
        req = json.loads(line)
        if req.get('quit'):
            break
        name = req['machine']
        mod = mods.get(name)
        if mod is None:
            mod = mods[name] = importlib.import_module('zisim.machines.' + name)
        timeout = req.get('timeout', 20.0)
        out = []
        if req.get('inproc'):
            # in-process mode is used only by machines that manage their own
            # subprocesses (persist restart, sanitizer replay)
            for item in req['items']:
                try:
                    out.append(mod.run(req, item))
                except BaseException:
                    out.append({'harness_error': traceback.format_exc()[-3000:]})
        else:
            for item in req['items']:
                out.append(_one(mod, req, item, timeout))
        proto.write(json.dumps({'id': req.get('id'), 'results': out}, default=str) + '\n')
        proto.flush()
    return 0


if __name__ == '__main__':
    sys.exit(main())
