"""Which machines, modes, configurations and budgets decide which property."""
from .engine import Config

C = Config('c')
PY = Config('py')
C_H1 = Config('c', hashseed=1)
PY_H7 = Config('py', hashseed=7)
C_STRICT = Config('c', iro='strict')
PY_STRICT = Config('py', iro='strict')
C_LEGACY = Config('c', iro='legacy')
PY_LEGACY = Config('py', iro='legacy')

STD = [(C, 9), (PY, 5), (C_H1, 1), (PY_H7, 1)]


class Part:
    def __init__(self, machine, mode=None, configs=None, quick=20000, thorough=400000, batch=100,
                 kind='seeds', tags=None, timeout=20.0, name=None, diff=None, quick_s=45, thorough_s=900):
        self.machine = machine
        self.mode = mode or {}
        self.configs = configs or STD
        self.quick = quick
        self.thorough = thorough
        self.batch = batch
        self.kind = kind            # 'seeds' | 'diff'
        self.tags = tags            # which violation tags count (default: the property's id)
        self.timeout = timeout
        self.name = name or machine
        self.diff = diff            # for kind == 'diff': list of Config to compare pairwise against the first
        self.quick_s = quick_s
        self.thorough_s = thorough_s


class Prop:
    def __init__(self, pid, level, parts, rule, assumptions, real_stub=None):
        self.id = pid
        self.level = level
        self.parts = parts
        self.rule = rule
        self.assumptions = assumptions


REAL_STUB = ('real: all of zope.interface (Python modules and the C extension compiled from /repo working tree, '
             'both PURE_PYTHON=0 and =1); stubs: user-side objects only (factories, subscribers, hooks, components, '
             '__conform__/__provides__ carriers, lazy required sequences, event sink)')

PROPS = {}


def _p(*a, **k):
    p = Prop(*a, **k)
    PROPS[p.id] = p
    return p


_p('C01', 'exploration',
   [Part('decl', {}, quick=48000, thorough=1500000)],
   rule='one case = one seeded declaration history (4-25 ops + gc/drop/perm faults) over a generated interface DAG, '
        'class DAG and instances, checked against DeclModel bounds after every op; distinct_nontrivial = number of '
        'distinct (model lower bound, model upper bound, reported set) abstract states observed for classes and objects',
   assumptions=['DeclModel encodes the documented elision rule: a declaration already implied by the class when made may be dropped',
                'class __bases__ are never reassigned (documented as unsupported)', REAL_STUB])

_p('C19', 'exploration',
   [Part('decl', {'super': True}, quick=24000, thorough=600000, name='decl+super')],
   rule='one case = one seeded declaration history with every (C, ob) super proxy along every MRO queried after every op '
        '(providedBy, implementedBy, I.providedBy, queryAdapter/adapter_hook/queryMultiAdapter through a registry holding one '
        'adapter per interface); distinct_nontrivial = distinct (MRO position, model bound, reported set) states',
   assumptions=['bounds come from DeclModel over the classes after C in type(ob).__mro__', REAL_STUB])
