"""Which machines, modes, configurations and budgets decide which property."""
from .engine import Config

C = Config('c')
PY = Config('py')
C_H1 = Config('c', hashseed=1)
PY_H7 = Config('py', hashseed=7)
C_STRICT = Config('c', iro='strict')
PY_STRICT = Config('py', iro='strict')
C_STRICT_TRACK = Config('c', iro='strict-track')
PY_TRACK = Config('py', iro='track')
C_LEGACY = Config('c', iro='legacy')
C_ASAN = Config('c', asan=True)
C_VALGRIND = Config('c', asan='valgrind')
PY_LEGACY = Config('py', iro='legacy')

STD = [(C, 9), (PY, 5), (C_H1, 1), (PY_H7, 1)]


class Part:
    def __init__(self, machine, mode=None, configs=None, quick=20000, thorough=400000, batch=100,
                 kind='seeds', tags=None, timeout=20.0, name=None, diff=None, quick_s=45, thorough_s=900):
        self.machine = machine
        self.mode = mode or {}
        self.configs = configs or STD
        self.quick = quick
        self.thorough = thorough
        self.batch = batch
        self.kind = kind            # 'seeds' | 'diff'
        self.tags = tags            # which violation tags count (default: the property's id)
        self.timeout = timeout
        self.name = name or machine
        self.diff = diff            # for kind == 'diff': list of Config to compare pairwise against the first
        self.quick_s = quick_s
        self.thorough_s = thorough_s


class Prop:
    def __init__(self, pid, level, parts, rule, assumptions, level_text='', level_note='', technique='',
                 design_ref='DESIGN.md section 3', expected_probes=()):
        self.id = pid
        self.level = level
        self.parts = parts
        self.rule = rule
        self.assumptions = list(assumptions) + [WORLD_KNOBS]
        self.level_text = level_text
        self.level_note = level_note or TRUSTED
        self.technique = technique
        self.design_ref = design_ref
        self.expected_probes = list(expected_probes)


WORLD_KNOBS = ('generated worlds and calls vary per run (swarm): objects, classes, values and interfaces that are false in a boolean context, '
               'values that coincide with defaults, interned / fresh / str-subclass / wide / missing names, argument shapes (list, tuple, iterator, '
               'generator), call styles (positional, keyword, omitted defaults), one world in twelve big and one in forty huge; see DESIGN.md section 12')

REAL_STUB = ('real: all of zope.interface (Python modules and the C extension compiled from /repo working tree, '
             'both PURE_PYTHON=0 and =1); stubs: user-side objects only (factories, subscribers, hooks, components, '
             '__conform__/__provides__ carriers, lazy required sequences, event sink)')

TRUSTED = ('trusted: the reference model / twin oracle of this machine (written from the documentation and the property '
           'statement), the simulator itself (seeded PRNG streams, fork-per-run isolation, gc/permute/drop seams), CPython 3.12 '
           'and gcc; sampled, not exhaustive: bounds per run are small worlds (<= 9 specs, <= 5 registries, <= 40 ops)')

NOT_APPLICABLE = {
    'C17': 'verifyObject/verifyClass acceptance is a pure function of one (interface signature, implementation signature, '
           'declared?) triple: no cache, no state, no callback that can fail or re-enter, no configuration axis; a simulator '
           'would contribute nothing but input generation (DESIGN.md section 4)',
    'C18': 'fromFunction/fromMethod are pure functions of a code object: no state, schedule, fault or configuration for a '
           'simulator to own (DESIGN.md section 4)',
    'C20': 'declaration +, -, iteration, membership and flattened() are pure functions of their operands and never modify them; '
           'the history-dependent users of the algebra are exercised set-wise under C01 (DESIGN.md section 4)',
}

# properties that will be claimed but whose check is not built yet
PENDING = {}

PROPS = {}


def _p(*a, **k):
    p = Prop(*a, **k)
    PROPS[p.id] = p
    return p


_p('C01', 'exploration',
   [Part('decl', {}, quick=36000, thorough=900000)],
   rule='one case = one seeded declaration history (4-25 ops + gc/drop/perm faults) over a generated interface DAG, '
        'class DAG and instances (one world in five with classes and instances that are false in a boolean context; callable '
        'instances declared as factories), checked against DeclModel bounds after every op; three single questions put right before each '
        'operation are repeated first thing after it (a remembered answer would be served exactly then); distinct_nontrivial = number of '
        'distinct (model lower bound, model upper bound, reported set) abstract states observed for classes and objects',
   assumptions=['DeclModel encodes the documented elision rule: a declaration already implied by the class when made may be dropped',
                'class __bases__ are never reassigned (documented as unsupported)', REAL_STUB],
   level_text='seeded search over declaration histories with scheduled gc / drop-last-reference / permute-notification-order '
              'faults; every live class and object is checked against the reference model after every operation, in both '
              'implementations; sampled evidence, not proof',
   technique='deterministic simulation: seeded declaration histories + gc/drop/permute faults vs DeclModel interval oracle',
   design_ref='DESIGN.md 3/C01', expected_probes=['shared-provides-hit', 'elision-possible', 'only-form'])

_p('C19', 'exploration',
   [Part('decl', {'super': True}, quick=24000, thorough=600000, name='decl+super')],
   rule='one case = one seeded declaration history with every (C, ob) super proxy along every MRO queried after every op '
        '(providedBy, implementedBy, I.providedBy, queryAdapter/adapter_hook/queryMultiAdapter through a registry holding one '
        'adapter per interface); in half of the worlds a simulator-owned dependent of every class specification queries the proxies '
        'from inside the change notification (re-entrant callback fault) and its last view per declaration call is judged too; '
        'distinct_nontrivial = distinct (MRO position, model bound, reported set) states',
   assumptions=['bounds come from DeclModel over the classes after C in type(ob).__mro__', REAL_STUB],
   level_text='seeded search over declaration histories (weak per-class super cache, gc faults) with every (C, ob) proxy along '
              'every MRO re-queried after every operation and adapted through a real registry; sampled evidence, not proof',
   technique='deterministic simulation: seeded declaration histories + gc faults, super proxies vs DeclModel over the MRO remainder',
   design_ref='DESIGN.md 3/C19', expected_probes=['super-query'])

GRAPH_CFG = [(C, 6), (PY, 4), (C_H1, 1), (PY_H7, 1)]

_p('C02', 'exploration',
   [Part('graph', {'props': ['C02']}, configs=GRAPH_CFG, quick=36000, thorough=1200000, name='graph/C02'),
    Part('graph', {'props': ['C02'], 'ifaces_only': True}, configs=[(C, 1), (PY, 1)], quick=6000, thorough=200000,
         name='graph/C02/ifaces'),
    # process configuration: the legacy resolution order (reachability does not depend on the order, so the same oracle applies)
    Part('graph', {'props': ['C02']}, configs=[(C_LEGACY, 1), (PY_LEGACY, 1)], quick=4000, thorough=100000, name='graph/C02/legacy')],
   rule='one case = one seeded rebasing history (3-18 ops: __bases__ assignment at interfaces, class specifications, instance '
        'declarations and plain declarations -- class specifications also through classImplementsOnly; creation of new dependents; '
        'gc / drop-dependent / permute-notification-order faults; before each re-basing every specification below it is asked one '
        'positive question, which is repeated first thing afterwards) '
        'with all ordered pairs (S, T) checked against reachability over the model bases after every op and against a freshly '
        'built isomorphic graph at probe points; distinct_nontrivial = distinct (node kind, #bases, |reachable set|, kinds reached) states',
   assumptions=['cyclic __bases__ assignments are never generated (unbounded recursion, outside the statement)',
                'initial bases of class / instance declarations are read from the real objects (their construction is C01)',
                REAL_STUB],
   level_text='seeded search over rebasing histories with scheduled gc / drop / permute faults on the weak change-propagation '
              'edges; every specification is compared with graph reachability over the current bases after every step, and '
              'with a freshly built graph of the same shape; sampled evidence, not proof',
   technique='deterministic simulation: seeded __bases__ reassignment histories + gc/drop/permute faults vs reachability model and fresh twin graph',
   design_ref='DESIGN.md 3/C02', expected_probes=['fresh-twin', 'rebase-I', 'rebase-impl', 'rebase-prov', 'rebase-decl', 'dependent-dropped'])

_p('C03', 'exploration',
   [Part('graph', {'props': ['C03']}, configs=GRAPH_CFG, quick=24000, thorough=900000, name='graph/C03'),
    Part('graph', {'props': ['C03'], 'ifaces_only': True}, configs=[(C, 1), (PY, 1)], quick=5000, thorough=150000, name='graph/C03/ifaces'),
    Part('graph', {'props': ['C03']}, configs=[(C_STRICT, 1), (PY_STRICT, 1)], quick=6000, thorough=200000, name='graph/C03/strict'),
    Part('graph', {'props': ['C03']}, configs=[(C_LEGACY, 1), (PY_LEGACY, 1)], quick=4000, thorough=100000, name='graph/C03/legacy'),
    Part('graph', {'props': ['C03']}, configs=[(C_STRICT_TRACK, 1), (PY_TRACK, 1)], quick=3000, thorough=80000, name='graph/C03/track'),
    # process configuration: an interpreter that strips assert statements (python -O / PYTHONOPTIMIZE)
    Part('graph', {'props': ['C03'], 'ifaces_only': True}, configs=[(Config('c', iro='default-O'), 1), (Config('py', iro='default-O'), 1)],
         quick=3000, thorough=80000, name='graph/C03/optimized')],
   rule='one case = one seeded rebasing history; after every op every __sro__/__iro__ is checked for validity and against CPython\'s '
        'type.mro() of a mirrored class hierarchy (C3 oracle), ro.ro(strict=True) and ro.is_consistent against "CPython can build the '
        'mirror"; run under default, ZOPE_INTERFACE_STRICT_IRO=1 and ZOPE_INTERFACE_USE_LEGACY_IRO=1 worker configurations; '
        'distinct_nontrivial = distinct (node kind, consistent?, |sro|, base-count profile) states',
   assumptions=['ro(strict=True)/is_consistent are compared with the mirror only for interfaces (Interface is then a common root, so '
                'literal C3 and C3-with-Interface-forced-last coincide); for mixed declaration graphs only validity and equality with the '
                'forced-last mirror are demanded', 'legacy mode: validity only', REAL_STUB],
   level_text='seeded search over rebasing histories and the three IRO process configurations; the cached resolution orders, which are '
              'a function of the propagation schedule, are compared after every step with an external C3 oracle (CPython type.mro()); '
              'sampled evidence, not proof',
   technique='deterministic simulation: seeded rebasing histories x strict/legacy/default configurations vs CPython type.mro() mirror oracle',
   design_ref='DESIGN.md 3/C03', expected_probes=['inconsistent-node', 'rebased-twice'])

_p('C15', 'exploration',
   [Part('graph', {'props': ['C15'], 'ifaces_only': True}, configs=[(C, 3), (PY, 3), (C_H1, 1), (PY_H7, 1)], quick=24000, thorough=900000,
         name='graph/C15')],
   rule='one case = one seeded history of rebasings interleaved with single accessor calls in PRNG order (memo warm-up) over an '
        'interface DAG in which several ancestors define the same names, tags and invariants; after every op all accessors of all '
        'interfaces are compared with "first definer along the current __iro__" (tag values include None and 0, i.e. values that coincide '
        'with the defaults callers pass); in half of the worlds a dependent of every interface reads the accessors from inside the change '
        'notification and is judged against the __iro__ it saw at that moment; distinct_nontrivial = distinct (|iro|, name -> definer) tables',
   assumptions=['"first definer" is computed along the real current __iro__ (whose correctness is C03), from the model\'s direct tables',
                REAL_STUB],
   level_text='seeded search over rebasing histories interleaved with accessor calls (per-interface attribute memo warmed in PRNG order); '
              'all accessors are checked against each other and against the first definer along the current resolution order after '
              'every step; sampled evidence, not proof',
   technique='deterministic simulation: seeded rebasing + accessor warm-up histories vs first-definer-along-iro model',
   design_ref='DESIGN.md 3/C15', expected_probes=['accessor-0', 'accessor-5', 'rebased-twice'])

REG_CFG = [(C, 6), (PY, 4), (C_H1, 1), (PY_H7, 1)]
REG_STUB = REAL_STUB + '; registered values, factories and subscribers are simulator stubs (identity-labelled, some equal-but-distinct, some returning None or raising)'

_p('C04', 'exploration',
   [Part('registry', {'props': ['C04'], 'shape': 'dense'}, configs=REG_CFG, quick=14000, thorough=500000, name='registry/C04/dense'),
    Part('registry', {'props': ['C04'], 'shape': 'book'}, configs=[(C, 1), (PY, 1)], quick=5000, thorough=200000, name='registry/C04/uniform')],
   rule='one case = one seeded registration history on 1-3 registries (dense: registrations drawn from the product of the ancestors of one '
        'multi-adapter key, on related provided interfaces and several names) followed by lookups of a key pool; every lookup/lookupAll result '
        'is compared with a brute-force model (registry position, then resolution-order positions left to right, then most general provided; '
        'incomparable provided interfaces: any most-general candidate accepted); distinct_nontrivial = distinct (arity, |registry ro|, '
        '#acceptable winners, hit/miss) states',
   assumptions=['positions are taken from the real __sro__ of the looked-up specifications (their correctness is C02/C03)',
                'provided interfaces are never re-based (documented as unsupported)', REG_STUB],
   level_text='refinement of the real registry against a brute-force reference model over seeded registration histories; the nested '
              'containers, reference-counted provided table and history-ordered extendors behind a lookup are simulator-built; sampled evidence',
   technique='deterministic simulation: seeded dense registration histories vs brute-force RegistryModel',
   design_ref='DESIGN.md 3/C04', expected_probes=['probe', 'ambiguous-provided', 'overwrite'])

_p('C05', 'exploration',
   [Part('registry', {'props': ['C05'], 'shape': 'dynamic'}, configs=REG_CFG, quick=7000, thorough=130000, name='registry/C05', timeout=40.0)],
   rule='one case = one seeded history (8-36 ops) mixing every mutation kind (register/unregister/subscribe/unsubscribe on the registry or a base, '
        'rebuild, registry __bases__, __bases__ of required interfaces, class and instance declarations) with lookups through all nine entry points '
        'over a small key pool, plus gc / permute / drop-registry faults; at probe points every key is asked on the warm registries and on a cold '
        'twin (fresh registries, same mutation history replayed, no lookups), one fresh twin per key and cache family; every call hands in a '
        'default object of its own, which has to come back by identity from that call only; two more parts place the faults: '
        '(short key, long key sharing its first component, change of what a later component extends, probe) triples, and registry chains '
        'with (own change, re-basing of a base) pairs and alternating changes in two ancestors; distinct_nontrivial = '
        'distinct (entry point, arity, empty?) states',
   assumptions=['the cold twin shares every non-cache defect with the original, so only cache incoherence can differ', REG_STUB],
   level_text='differential oracle that is exactly the statement: warm registry vs a registry that performed no earlier lookups after the same '
              'mutations, over seeded histories with gc/permute faults on the weak invalidation edges; sampled evidence',
   technique='deterministic simulation: seeded lookup/mutation histories + gc/permute faults, warm registry vs cold-twin replay',
   design_ref='DESIGN.md 3/C05', expected_probes=['cold-twin', 'mut-register', 'mut-unsubscribe', 'mut-registry-bases', 'mut-interface-bases',
                                                  'mut-class-declaration', 'mut-instance-declaration', 'mut-rebuild'])

_p('C06', 'exploration',
   [Part('registry', {'props': ['C06'], 'shape': 'chain'}, configs=REG_CFG, quick=9000, thorough=250000, name='registry/C06', timeout=40.0)],
   rule='one case = one seeded history over a registry DAG of 3-5 nodes of either flavour (and verifying over invalidating): __bases__ assignment at '
        'any level, registrations in any member, rebuild of any member, dropped registries, gc / permute faults; at probe points lookup, lookupAll '
        'and subscriptions from every key are compared with the model evaluated over the model\'s own C3 of the *current* registry DAG, warm and on a cold twin; '
        'distinct_nontrivial = distinct (arity, |registry ro|, #acceptable winners, hit/miss) states',
   assumptions=['registry DAGs are kept C3-consistent and acyclic; an invalidating registry only gets invalidating bases (documented constraint)', REG_STUB],
   level_text='seeded search over registry re-basing histories (weak, ordered sub-registry links; generation snapshots) against a model that recomputes '
              'the base chain from the current DAG; sampled evidence',
   technique='deterministic simulation: seeded registry-DAG rebasing histories + gc/permute faults vs RegistryModel over the current DAG',
   design_ref='DESIGN.md 3/C06', expected_probes=['rebase-registry-with-subregistries', 'rebase-registry-two-levels-above-bottom', 'rebuild-of-a-base-registry'])

_p('C07', 'exploration',
   [Part('registry', {'props': ['C07'], 'shape': 'subs'}, configs=REG_CFG, quick=12000, thorough=500000, name='registry/C07'),
    Part('registry', {'props': ['C07'], 'shape': 'chain'}, configs=[(C, 2), (PY, 2)], quick=3000, thorough=80000, name='registry/C07/chains', timeout=40.0)],
   rule='one case = one seeded subscribe/unsubscribe history (duplicates, equal-but-distinct values, handlers, arity 0-3, registry chains); at probe '
        'points subscriptions() of every key is compared with the model list of live subscriptions as a multiset and for the specified part of the '
        'order (base registries first; less specific required keys first, component-wise for arity >= 2; identical keys in subscription order); '
        'distinct_nontrivial = distinct (arity, #results, handler?, |registry ro|) states',
   assumptions=['order between different provided interfaces under the same required key is not demanded (the statement is silent)', REG_STUB],
   level_text='seeded search over subscription histories against a flat model list; sampled evidence',
   technique='deterministic simulation: seeded subscribe/unsubscribe histories vs model list (multiset + specified order)',
   design_ref='DESIGN.md 3/C07', expected_probes=['duplicate-subscription', 'unsubscribe-equal-but-distinct', 'unsubscribe-removed-several'])

_p('C08', 'exploration',
   [Part('registry', {'props': ['C08'], 'shape': 'dynamic', 'raising_factories': True}, configs=REG_CFG, quick=8000, thorough=300000,
         name='registry/C08', timeout=40.0)],
   rule='one case = one seeded history; at probe points, for every key, the nine entry points are called on the warm registry in a PRNG-chosen '
        'permutation (warm-up schedule) and each is compared with lookup()/subscriptions() of a cold twin composed with the stub factories '
        '(None-returning and raising factories are injected faults); defaults by identity, non-string names on every path; distinct_nontrivial = '
        'distinct (arity, hit?, #subscriptions, #names, object key?) states',
   assumptions=[REG_STUB],
   level_text='relational oracle over seeded histories and warm-up permutations with callback faults; sampled evidence',
   technique='deterministic simulation: seeded histories x entry-point warm-up permutations + factory faults vs cold-twin lookup()/subscriptions()',
   design_ref='DESIGN.md 3/C08', expected_probes=['cold-twin'])

_p('C09', 'exploration',
   [Part('registry', {'props': ['C09'], 'shape': 'book'}, configs=REG_CFG, quick=12000, thorough=500000, name='registry/C09')],
   rule='one case = one seeded register/unregister/subscribe/unsubscribe/rebuild history (overwrites, identical and equal-but-distinct values, '
        'register(None), removal of the last entry of a nested container); after every op registered/allRegistrations/allSubscriptions/subscribed '
        'are compared with the model; rebuild() and replay-into-an-empty-registry must answer every unambiguous key identically; '
        'distinct_nontrivial = distinct (#live registrations, #live subscriptions) states',
   assumptions=[REG_STUB],
   level_text='seeded search over bookkeeping histories against a model dict/list, plus rebuild/replay equivalence; sampled evidence',
   technique='deterministic simulation: seeded bookkeeping histories vs model dict + rebuild/replay equivalence',
   design_ref='DESIGN.md 3/C09', expected_probes=['overwrite', 'identical-re-registration', 'register-None', 'last-entry-of-arity-removed', 'replay-into-empty'])

PROPS['C05'].parts.append(Part('registry', {'props': ['C05'], 'shape': 'specdyn'}, configs=[(C, 2), (PY, 2)], quick=3000, thorough=70000,
                               name='registry/C05/specs', timeout=40.0))
PROPS['C05'].parts.append(Part('registry', {'props': ['C05'], 'shape': 'chain'}, configs=[(C, 2), (PY, 2)], quick=3000, thorough=50000,
                               name='registry/C05/chains', timeout=40.0))


_p('C14', 'fault_enumeration',
   [Part('adapt', {}, configs=[(C, 1), (PY, 1)], kind='enum', name='adapt/product', timeout=120.0),
    Part('adapt', {}, configs=[(C, 3), (PY, 2), (C_H1, 1)], quick=3000, thorough=150000, name='adapt/sequences')],
   rule='one case = one call I(obj[, alternate]) under a fault plan that dictates the behaviour of every user callback on the path '
        '(__conform__ variants incl. failing attribute access and an instance method on a class, provided or not, 0-3 adapter hooks that '
        'return None / a value / raise / mutate the hook list while it is walked, custom __adapt__ via interfacemethod, sub-interface, '
        "a registry's adapter_hook as a hook); the complete product is enumerated, then seeded random sequences over shared interface "
        'objects; oracle = AdaptModel (value by identity, exception type and TypeError args, stub call log); distinct_nontrivial = distinct fault plans executed',
   assumptions=['a hook that mutates adapter_hooks while it is walked is modelled with list-iterator semantics (the hooks "installed" at each '
                'moment, in list order)', REAL_STUB],
   level_text='the fault product of the callbacks on the adaptation path is finite and is enumerated completely in both implementations; seeds '
              'add long random sequences with state carried between calls',
   technique='deterministic simulation: complete enumeration of the callback fault plan + seeded sequences vs AdaptModel (PEP 246 order) incl. stub call log',
   design_ref='DESIGN.md 3/C14')

_p('C16', 'exploration',
   [Part('components', {}, configs=[(C, 5), (PY, 4), (C_H1, 1), (PY_H7, 1)], quick=9000, thorough=250000, name='components', timeout=40.0)],
   rule='one case = one seeded history (5-40 ops) of the eight register/unregister methods on 1-3 Components objects (with bases) using hashable, '
        'unhashable, equal-but-distinct and identical components, names, related provided interfaces, factory=, event=False, implicit forms, '
        're-initialisation, __bases__ changes, dropping the volatile cache, gc; after every op the four listings, return values and recorded '
        'events are compared with ComponentsModel, every query method with fresh adapter registries populated from the model, and '
        'rebuildUtilityRegistryFromLocalCache() must report nothing to repair; distinct_nontrivial = distinct (#utilities, #adapters, '
        '#subscription adapters, #handlers, #unhashable) states',
   assumptions=['registerAdapter of an existing key may or may not announce the removal of the replaced registration (statement silent); a bulk '
                'unregisterSubscriptionAdapter/unregisterHandler removing k > 1 entries may emit 1 or k events',
                'only leaf Components are re-initialised', 'getAllUtilitiesRegisteredFor is compared up to ==, not identity',
                REAL_STUB + '; event sink zope.interface.registry.notify replaced by a recorder (zope.event not exercised)'],
   level_text='seeded search over Components histories against a plain-container reference model plus registries rebuilt from the model; sampled evidence',
   technique='deterministic simulation: seeded register/unregister histories vs ComponentsModel (listings, queries via rebuilt registries, events, return values)',
   design_ref='DESIGN.md 3/C16', expected_probes=['unhashable-utility', 'utility-replaced', 'same-or-equal-utility-under-several-names',
                                                  'unregistered-one-of-several-names', 're-initialised', 'components-bases-changed'])

C_H2 = Config('c', hashseed=12345)
PY_H1 = Config('py', hashseed=1)

_p('C12', 'exploration',
   [Part('persist', {'what': 'order'}, configs=[(C, 4), (PY, 3), (C_H1, 1), (PY_H7, 1)], quick=16000, thorough=600000, name='persist/order-laws'),
    Part('persist', {'what': 'order'}, kind='diff', diff=[C, C_H1, C_H2, PY, PY_H7], quick=2500, thorough=100000, name='persist/order-across-processes')],
   rule='one case = one seeded pool of 4-9 interfaces and class specifications whose (name, module) pairs come from an adversarial vocabulary '
        '(empty, equal, prefix-related, non-ASCII, equal name / other module and vice versa; each string independently an interned or a '
        'freshly built object; one world in ten made of interfaces whose "name" contains a blank, i.e. __name__ None), plus None and foreign objects; all ordered pairs x '
        'six operators are compared with the key model, hashes of equal interfaces, sorted() of several permutations; the second part executes '
        'the same seeds in worker processes with PYTHONHASHSEED 0 / 1 / 12345 under both implementations and diffs the logs (sorted order, '
        'comparison matrix incl. foreign operands); distinct_nontrivial = distinct (kinds, names equal?, modules equal?, operator, result) states',
   assumptions=['for the algebraic laws the simulator is only the generator (DESIGN.md 3/C12 says so); the simulator-owned dimension is the '
                'process configuration (hash seed, implementation)', REAL_STUB],
   level_text='key-model oracle over generated operand pools plus replay of the same seeds across hash seeds and implementations in fresh worker '
              'processes; sampled evidence',
   technique='deterministic simulation: seeded operand pools vs (name, module) key model; same seeds replayed across PYTHONHASHSEED x implementation and log-diffed',
   design_ref='DESIGN.md 3/C12')

_p('C13', 'exploration',
   [Part('persist', {'what': 'pickle'}, configs=[(C, 4), (PY, 3), (C_H1, 1), (PY_H7, 1)], quick=14000, thorough=500000, name='persist/pickle'),
    Part('persist', {'what': 'pickle', 'restart': True}, configs=[(C, 1), (PY, 1)], quick=700, thorough=20000, name='persist/restart', batch=10, timeout=90.0)],
   rule='one case = one seeded declaration history (instance and class declarations of every shape, incl. alsoProvides / noLongerProvides on classes, classes that are false in a boolean '
        'context, the only / first / provider forms at '
        'import time of a generated importable module) followed by dump of every interface, class specification, class and instance '
        'provides-declaration, declared object and _empty with a PRNG-chosen protocol, then load in the same process (optionally after a gc fault) '
        'or in a fresh interpreter of the other implementation / hash seed that regenerates the module (restart: only the pickle survives); '
        'identity for interfaces / class specifications, same provided interfaces for provides-declarations, no definition bytes in the pickle; '
        'distinct_nontrivial = distinct (kind, protocol, declaration shape, provided set) states',
   assumptions=['restart histories contain no class-level declaration changes after import (they would not exist in the new process)',
                'a declaration that was elided as redundant and whose class was narrowed afterwards may come back on unpickling (the pickle stores what was declared)',
                REAL_STUB],
   level_text='seeded declaration histories with dump / gc / load and dump / restart / load through real pickles and a real second interpreter; sampled evidence',
   technique='deterministic simulation: seeded declaration histories + dump/gc/load and dump/restart(fresh interpreter, other impl/hash seed)/load',
   design_ref='DESIGN.md 3/C13', expected_probes=['provides-roundtrip-identical'])

CPY = [C, PY]
_p('C10', 'translation_validation',
   [Part('odd', {}, kind='diff', diff=CPY, quick=2000, thorough=100000, name='diff/odd'),
    Part('decl', {'super': True}, kind='diff', diff=CPY, quick=1500, thorough=100000, name='diff/decl'),
    Part('graph', {'props': ['C02', 'C03']}, kind='diff', diff=CPY, quick=2000, thorough=80000, name='diff/graph'),
    Part('graph', {'props': ['C15'], 'ifaces_only': True}, kind='diff', diff=CPY, quick=1200, thorough=50000, name='diff/graph-attrs'),
    # strict configuration: what a specification answers after strict mode refused a re-basing of it is logged (not judged
    # against the model -- the propagation was aborted) and has to be the same in both implementations
    Part('graph', {'props': ['C02', 'C03']}, kind='diff', diff=[C_STRICT, PY_STRICT], quick=1200, thorough=50000, name='diff/graph-strict'),
    Part('registry', {'props': ['C04'], 'shape': 'dynamic', 'raising_factories': True, 'log_answers': True}, kind='diff', diff=CPY,
         quick=2000, thorough=80000, name='diff/registry', timeout=40.0),
    Part('adapt', {}, kind='diff', diff=CPY, quick=1500, thorough=60000, name='diff/adapt'),
    Part('components', {}, kind='diff', diff=CPY, quick=1200, thorough=50000, name='diff/components', timeout=40.0),
    Part('persist', {'what': 'pickle'}, kind='diff', diff=CPY, quick=1500, thorough=60000, name='diff/pickle'),
    Part('persist', {'what': 'order'}, kind='diff', diff=CPY, quick=1500, thorough=60000, name='diff/order')],
   rule='one program = one seeded explicit history of one of the machines (declarations + super proxies, specification graphs, registries with every '
        'lookup entry point logged for every key, adaptation under fault plans, Components, pickling, ordering) or a PRNG-chosen sequence over the '
        'odd-input catalogue (odd __provides__/__providedBy__ values, foreign comparison operands, cached None with a default, non-string names, '
        'generators / non-sequences / unhashable operands, wrong arity, super proxies); each program is executed in two worker processes '
        '(PURE_PYTHON=0 and =1) and the normalised event logs (results, exception types, all later behaviour) are compared line by line; '
        'programs = programs executed under both implementations; disagreements_checked = log events compared',
   assumptions=['only exception types are compared, never messages or reprs; memory addresses never enter a log',
                'operands have the documented types except on the surfaces the property itself names (DESIGN.md 3/C10 vocabulary rule)', REAL_STUB],
   level_text='differential replay of generated programs under both implementations in separate processes, step-by-step log comparison; sampled programs, '
              'complete only in the sense that every catalogue entry of the odd machine is reached',
   technique='deterministic simulation: same seeded programs replayed under PURE_PYTHON=0 and =1, event-log diff',
   design_ref='DESIGN.md 3/C10')

_p('C11', 'fault_enumeration',
   [Part('race', {'part': 'reenter'}, configs=[(C, 1), (PY, 1)], kind='enum', name='race/reenter-product', timeout=180.0),
    Part('race', {'part': 'threads'}, configs=[(C, 5), (PY, 3), (C_H1, 1)], quick=6400, thorough=300000, name='race/threads', timeout=60.0, batch=50, thorough_s=600),
    Part('race', {'part': 'reenter', 'asan': True}, configs=[(C_ASAN, 1)], kind='enum', name='race/reenter-product/asan', timeout=300.0),
    Part('race', {'part': 'threads', 'asan': True}, configs=[(C_ASAN, 1)], quick=800, thorough=40000, name='race/threads/asan', timeout=120.0, batch=25, thorough_s=300),
    Part('race', {'part': 'reenter', 'asan': True, 'stride': 6, 'block': 50}, configs=[(C_VALGRIND, 1)], kind='enum', name='race/reenter-product/memcheck', timeout=600.0),
    Part('race', {'part': 'threads', 'asan': True}, configs=[(C_VALGRIND, 1)], quick=64, thorough=2400, name='race/threads/memcheck', timeout=300.0, batch=4, thorough_s=300)],
   rule='Part A (enumerated completely): one case = one lookup through one of the nine entry points on a two-level registry chain of either '
        'flavour, with one callback point armed (lazy required iterable, __providedBy__ descriptor, overridden _uncached_* before/after delegating, '
        'a required specification with a Python-level subscribe, _generation as a property of the base registry, an overridden changed(), the '
        'factory) to perform one injected action (register/unregister/subscribe/unsubscribe on the registry or its base, registry __bases__, '
        're-basing a required interface, class declaration change, rebuild(), changed(), recursive lookups, gc with a mutating finalizer, raise) '
        'in one of three cache states (the callback points include the lookup object\'s changed() before it refreshes); oracles: ownership audit of the cache dictionaries at callback exit, answer in {before, after}, the next '
        'lookup equals the final state, injected exceptions propagate, no other exception, reference balance of operands and cached results over '
        'repetitions.  Part B (sampled): 2-4 real threads under a baton scheduler whose PRNG decides every pre-emption at line events inside '
        'zope/interface/*.py, k lookup threads and 0-1 mutator (or lookup-only after a base-registry change), locks the library takes are '
        'simulator-owned; oracles: no crash, no exception in a lookup, every answer equals the model in one of the states its interval overlaps, '
        'final re-ask equals the final state.  Both parts are repeated without pins under AddressSanitizer (clang build of the extension) and '
        'under valgrind memcheck (which also sees what libpython touches on behalf of the extension), with the dict free lists filled before '
        'and flushed after each injected mutation; further oracles of part A: every cache dictionary has exactly one owner after each case, '
        'and reference counts of the operands do not drift over 25 lookups that leave through the error path (callback raises, cold caches). '
        'One thread world in four pre-empts between bytecodes instead of lines; one mutator step in eight is a garbage collection.  '
        'distinct_nontrivial = distinct (flavour, entry, callback point, action, cache state, fired?) cases '
        'plus (configuration, flavour, entry, overlapped mutations) thread states',
   assumptions=['CPython hands over the GIL only between bytecodes, never inside the extension, so line-event pre-emption of the Python callbacks '
                'is a superset of the real switch points inside a C lookup', 'an exception seen by the mutator thread is not by itself a violation',
                'no free-threaded build / TSan interpreter is available: data races inside the extension without the GIL are not examined',
                REAL_STUB + '; lookup classes, specification classes and registries with instrumented callbacks are simulator subclasses'],
   level_text='every (entry point x callback point x action x cache state x flavour) combination is executed in both implementations with an '
              'ownership audit that needs no crash to fire; thread schedules are a seeded sample with deterministic replay',
   technique='deterministic simulation: enumerated re-entrant callback faults with cache-ownership audit + seeded baton-scheduled thread interleavings vs model',
   design_ref='DESIGN.md 3/C11', expected_probes=['callback-fired', 'lookup-overlapped-mutation', 'lock-contention', 'refbalance-checked'])
