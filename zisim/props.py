"""Which machines, modes, configurations and budgets decide which property."""
from .engine import Config

C = Config('c')
PY = Config('py')
C_H1 = Config('c', hashseed=1)
PY_H7 = Config('py', hashseed=7)
C_STRICT = Config('c', iro='strict')
PY_STRICT = Config('py', iro='strict')
C_LEGACY = Config('c', iro='legacy')
PY_LEGACY = Config('py', iro='legacy')

STD = [(C, 9), (PY, 5), (C_H1, 1), (PY_H7, 1)]


class Part:
    def __init__(self, machine, mode=None, configs=None, quick=20000, thorough=400000, batch=100,
                 kind='seeds', tags=None, timeout=20.0, name=None, diff=None, quick_s=45, thorough_s=900):
        self.machine = machine
        self.mode = mode or {}
        self.configs = configs or STD
        self.quick = quick
        self.thorough = thorough
        self.batch = batch
        self.kind = kind            # 'seeds' | 'diff'
        self.tags = tags            # which violation tags count (default: the property's id)
        self.timeout = timeout
        self.name = name or machine
        self.diff = diff            # for kind == 'diff': list of Config to compare pairwise against the first
        self.quick_s = quick_s
        self.thorough_s = thorough_s


class Prop:
    def __init__(self, pid, level, parts, rule, assumptions, level_text='', level_note='', technique='',
                 design_ref='DESIGN.md section 3', expected_probes=()):
        self.id = pid
        self.level = level
        self.parts = parts
        self.rule = rule
        self.assumptions = assumptions
        self.level_text = level_text
        self.level_note = level_note or TRUSTED
        self.technique = technique
        self.design_ref = design_ref
        self.expected_probes = list(expected_probes)


REAL_STUB = ('real: all of zope.interface (Python modules and the C extension compiled from /repo working tree, '
             'both PURE_PYTHON=0 and =1); stubs: user-side objects only (factories, subscribers, hooks, components, '
             '__conform__/__provides__ carriers, lazy required sequences, event sink)')

TRUSTED = ('trusted: the reference model / twin oracle of this machine (written from the documentation and the property '
           'statement), the simulator itself (seeded PRNG streams, fork-per-run isolation, gc/permute/drop seams), CPython 3.12 '
           'and gcc; sampled, not exhaustive: bounds per run are small worlds (<= 9 specs, <= 5 registries, <= 40 ops)')

NOT_APPLICABLE = {
    'C17': 'verifyObject/verifyClass acceptance is a pure function of one (interface signature, implementation signature, '
           'declared?) triple: no cache, no state, no callback that can fail or re-enter, no configuration axis; a simulator '
           'would contribute nothing but input generation (DESIGN.md section 4)',
    'C18': 'fromFunction/fromMethod are pure functions of a code object: no state, schedule, fault or configuration for a '
           'simulator to own (DESIGN.md section 4)',
    'C20': 'declaration +, -, iteration, membership and flattened() are pure functions of their operands and never modify them; '
           'the history-dependent users of the algebra are exercised set-wise under C01 (DESIGN.md section 4)',
}

# properties that will be claimed but whose check is not built yet
PENDING = {k: "claimed in DESIGN.md; its check is not built yet in this commit" for k in ("C04 C05 C06 C07 C08 C09 C10 C11 C12 C13 C14 C16").split()}

PROPS = {}


def _p(*a, **k):
    p = Prop(*a, **k)
    PROPS[p.id] = p
    return p


_p('C01', 'exploration',
   [Part('decl', {}, quick=48000, thorough=1500000)],
   rule='one case = one seeded declaration history (4-25 ops + gc/drop/perm faults) over a generated interface DAG, '
        'class DAG and instances, checked against DeclModel bounds after every op; distinct_nontrivial = number of '
        'distinct (model lower bound, model upper bound, reported set) abstract states observed for classes and objects',
   assumptions=['DeclModel encodes the documented elision rule: a declaration already implied by the class when made may be dropped',
                'class __bases__ are never reassigned (documented as unsupported)', REAL_STUB],
   level_text='seeded search over declaration histories with scheduled gc / drop-last-reference / permute-notification-order '
              'faults; every live class and object is checked against the reference model after every operation, in both '
              'implementations; sampled evidence, not proof',
   technique='deterministic simulation: seeded declaration histories + gc/drop/permute faults vs DeclModel interval oracle',
   design_ref='DESIGN.md 3/C01', expected_probes=['shared-provides-hit', 'elision-possible', 'only-form'])

_p('C19', 'exploration',
   [Part('decl', {'super': True}, quick=24000, thorough=600000, name='decl+super')],
   rule='one case = one seeded declaration history with every (C, ob) super proxy along every MRO queried after every op '
        '(providedBy, implementedBy, I.providedBy, queryAdapter/adapter_hook/queryMultiAdapter through a registry holding one '
        'adapter per interface); distinct_nontrivial = distinct (MRO position, model bound, reported set) states',
   assumptions=['bounds come from DeclModel over the classes after C in type(ob).__mro__', REAL_STUB],
   level_text='seeded search over declaration histories (weak per-class super cache, gc faults) with every (C, ob) proxy along '
              'every MRO re-queried after every operation and adapted through a real registry; sampled evidence, not proof',
   technique='deterministic simulation: seeded declaration histories + gc faults, super proxies vs DeclModel over the MRO remainder',
   design_ref='DESIGN.md 3/C19', expected_probes=['super-query'])

GRAPH_CFG = [(C, 6), (PY, 4), (C_H1, 1), (PY_H7, 1)]

_p('C02', 'exploration',
   [Part('graph', {'props': ['C02']}, configs=GRAPH_CFG, quick=36000, thorough=1200000, name='graph/C02'),
    Part('graph', {'props': ['C02'], 'ifaces_only': True}, configs=[(C, 1), (PY, 1)], quick=6000, thorough=200000,
         name='graph/C02/ifaces')],
   rule='one case = one seeded rebasing history (3-18 ops: __bases__ assignment at interfaces, class specifications, instance '
        'declarations and plain declarations; creation of new dependents; gc / drop-dependent / permute-notification-order faults) '
        'with all ordered pairs (S, T) checked against reachability over the model bases after every op and against a freshly '
        'built isomorphic graph at probe points; distinct_nontrivial = distinct (node kind, #bases, |reachable set|, kinds reached) states',
   assumptions=['cyclic __bases__ assignments are never generated (unbounded recursion, outside the statement)',
                'initial bases of class / instance declarations are read from the real objects (their construction is C01)',
                REAL_STUB],
   level_text='seeded search over rebasing histories with scheduled gc / drop / permute faults on the weak change-propagation '
              'edges; every specification is compared with graph reachability over the current bases after every step, and '
              'with a freshly built graph of the same shape; sampled evidence, not proof',
   technique='deterministic simulation: seeded __bases__ reassignment histories + gc/drop/permute faults vs reachability model and fresh twin graph',
   design_ref='DESIGN.md 3/C02', expected_probes=['fresh-twin', 'rebase-I', 'rebase-impl', 'rebase-prov', 'rebase-decl', 'dependent-dropped'])

_p('C03', 'exploration',
   [Part('graph', {'props': ['C03']}, configs=GRAPH_CFG, quick=24000, thorough=900000, name='graph/C03'),
    Part('graph', {'props': ['C03']}, configs=[(C_STRICT, 1), (PY_STRICT, 1)], quick=6000, thorough=200000, name='graph/C03/strict'),
    Part('graph', {'props': ['C03']}, configs=[(C_LEGACY, 1), (PY_LEGACY, 1)], quick=4000, thorough=100000, name='graph/C03/legacy')],
   rule='one case = one seeded rebasing history; after every op every __sro__/__iro__ is checked for validity and against CPython\'s '
        'type.mro() of a mirrored class hierarchy (C3 oracle), ro.ro(strict=True) and ro.is_consistent against "CPython can build the '
        'mirror"; run under default, ZOPE_INTERFACE_STRICT_IRO=1 and ZOPE_INTERFACE_USE_LEGACY_IRO=1 worker configurations; '
        'distinct_nontrivial = distinct (node kind, consistent?, |sro|, base-count profile) states',
   assumptions=['ro(strict=True)/is_consistent are compared with the mirror only for interfaces (Interface is then a common root, so '
                'literal C3 and C3-with-Interface-forced-last coincide); for mixed declaration graphs only validity and equality with the '
                'forced-last mirror are demanded', 'legacy mode: validity only', REAL_STUB],
   level_text='seeded search over rebasing histories and the three IRO process configurations; the cached resolution orders, which are '
              'a function of the propagation schedule, are compared after every step with an external C3 oracle (CPython type.mro()); '
              'sampled evidence, not proof',
   technique='deterministic simulation: seeded rebasing histories x strict/legacy/default configurations vs CPython type.mro() mirror oracle',
   design_ref='DESIGN.md 3/C03', expected_probes=['inconsistent-node', 'rebased-twice'])

_p('C15', 'exploration',
   [Part('graph', {'props': ['C15'], 'ifaces_only': True}, configs=[(C, 3), (PY, 3), (C_H1, 1), (PY_H7, 1)], quick=24000, thorough=900000,
         name='graph/C15')],
   rule='one case = one seeded history of rebasings interleaved with single accessor calls in PRNG order (memo warm-up) over an '
        'interface DAG in which several ancestors define the same names, tags and invariants; after every op all accessors of all '
        'interfaces are compared with "first definer along the current __iro__"; distinct_nontrivial = distinct (|iro|, name -> definer) tables',
   assumptions=['"first definer" is computed along the real current __iro__ (whose correctness is C03), from the model\'s direct tables',
                REAL_STUB],
   level_text='seeded search over rebasing histories interleaved with accessor calls (per-interface attribute memo warmed in PRNG order); '
              'all accessors are checked against each other and against the first definer along the current resolution order after '
              'every step; sampled evidence, not proof',
   technique='deterministic simulation: seeded rebasing + accessor warm-up histories vs first-definer-along-iro model',
   design_ref='DESIGN.md 3/C15', expected_probes=['accessor-0', 'accessor-5', 'rebased-twice'])
