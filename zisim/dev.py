"""Developer runner: ./check dev <machine> <n> [--impl c|py] [--iro default|strict|legacy] [--mode JSON] [--start k] [--show m]

Runs seeds start..start+n in one worker (fork per run) and prints a summary of
violation fingerprints.  Not used by any registered command.
"""
import collections
import json
import os
import subprocess
import sys

from . import build
from .engine import Config, Pool, run_seeds
from .prng import run_seed


def main(argv):
    machine = argv[0]
    n = int(argv[1])
    opts = dict(zip(argv[2::2], argv[3::2]))
    cfg = Config(opts.get('--impl', 'c'), opts.get('--hash', '0'), opts.get('--iro', 'default'))
    mode = json.loads(opts.get('--mode', '{}'))
    start = int(opts.get('--start', '0'))
    show = int(opts.get('--show', '3'))
    seeds = [run_seed(0, 'dev', machine, 'dev', start + i) for i in range(n)]
    with Pool() as pool:
        agg = run_seeds(pool, machine, mode, [(cfg, seeds)], batch=50, timeout=30)
    fps = collections.Counter()
    first = {}
    for c, item, res in agg.violations:
        for v in res['violations']:
            fps[v['fingerprint']] += 1
            first.setdefault(v['fingerprint'], (item, res, v))
    print('runs', agg.runs, 'events', agg.events, 'states', len(agg.states), 'crashes', len(agg.crashes),
          'timeouts', len(agg.timeouts), 'harness_errors', len(agg.harness_errors))
    for he in agg.harness_errors[:show]:
        print('HARNESS', he[1], '\n', he[2])
    for c, item, res in agg.crashes[:show]:
        print('CRASH', item, res)
    for fp, cnt in fps.most_common():
        print('%6d  %s' % (cnt, fp))
    for fp, (item, res, v) in list(first.items())[:show]:
        print('--- first', fp, 'seed', item['seed'], 'step', v['step'])
        print(json.dumps(v['detail'], default=str)[:1200])
        print('ops', json.dumps(res['program']['ops'][:v['step'] + 1], default=str)[:1500])
    print('probes', dict(agg.probes))
    print('faults', dict(agg.faults))
    return 0
