"""Delta debugging over explicit histories (ops are total, so any sub-list runs)."""
import copy
import time


def ddmin(items, test_many, max_rounds=200, deadline=None):
    """Minimise *items* (a list) such that test still passes.

    test_many(list_of_candidate_lists) -> list of bool (evaluated in parallel).
    """
    n = 2
    rounds = 0
    def late():
        return deadline is not None and time.monotonic() > deadline
    while len(items) >= 2 and rounds < max_rounds and not late():
        rounds += 1
        size = max(1, len(items) // n)
        subsets = [items[i:i + size] for i in range(0, len(items), size)]
        complements = []
        for i in range(len(subsets)):
            comp = [x for j, s in enumerate(subsets) if j != i for x in s]
            complements.append(comp)
        cands = subsets + complements if n > 2 else subsets + complements
        res = test_many(cands)
        hit = None
        for c, ok in zip(cands, res):
            if ok and len(c) < len(items):
                if hit is None or len(c) < len(hit):
                    hit = c
        if hit is not None:
            was_subset = any(hit is s for s in subsets)
            items = hit
            n = 2 if was_subset else max(n - 1, 2)
        else:
            if n >= len(items):
                break
            n = min(len(items), n * 2)
    # final one-by-one pass
    changed = True
    while changed and len(items) > 1 and rounds < max_rounds and not late():
        rounds += 1
        changed = False
        cands = [items[:i] + items[i + 1:] for i in range(len(items))]
        res = test_many(cands)
        for c, ok in zip(cands, res):
            if ok:
                items = c
                changed = True
                break
    return items


def minimise_program(program, test_many_programs, simplifiers=(), deadline=None):
    """ddmin over program['ops'], then optional structure-aware simplifiers.

    test_many_programs(list of programs) -> list of bool.
    simplifiers: functions program -> iterable of candidate programs (smaller).
    """
    prog = copy.deepcopy(program)

    def tm(cands):
        ps = []
        for c in cands:
            p = dict(prog)
            p['ops'] = c
            ps.append(p)
        return test_many_programs(ps)

    if len(prog.get('ops', [])) > 1:
        prog['ops'] = ddmin(list(prog['ops']), tm, deadline=deadline)
    for _ in range(4):
        if deadline is not None and time.monotonic() > deadline:
            break
        progressed = False
        for simp in simplifiers:
            cands = list(simp(prog))
            if not cands:
                continue
            res = test_many_programs(cands)
            for c, ok in zip(cands, res):
                if ok:
                    prog = c
                    progressed = True
                    break
        if not progressed:
            break
    return prog
