"""One integer decides everything: named PRNG streams derived from one seed."""
import hashlib
import random


def h64(*parts):
    s = '\x1f'.join(str(p) for p in parts).encode()
    return int.from_bytes(hashlib.sha256(s).digest()[:8], 'big') >> 1


def run_seed(verif_seed, prop, machine, mode, index):
    return h64('run', verif_seed, prop, machine, mode, index)


class Streams:
    """Independent streams: adding draws to one never shifts another."""

    def __init__(self, seed):
        self.seed = seed
        self._s = {}

    def __call__(self, name):
        r = self._s.get(name)
        if r is None:
            r = self._s[name] = random.Random(h64('stream', self.seed, name))
        return r


def pick(rng, weighted):
    """weighted: list of (weight, item)."""
    tot = sum(w for w, _ in weighted)
    x = rng.random() * tot
    for w, it in weighted:
        x -= w
        if x < 0:
            return it
    return weighted[-1][1]
