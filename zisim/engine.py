"""Parent-side engine: worker pools, batches, aggregation.

The parent never imports zope.interface.
"""
import collections
import json
import os
import queue
import subprocess
import sys
import threading
import time

from . import build

VERIF = build.VERIF
NCPU = int(os.environ.get('ZISIM_WORKERS', '0')) or (os.cpu_count() or 4)


class Config(collections.namedtuple('Config', 'impl hashseed iro asan')):
    """Process configuration of a worker: implementation, hash seed, IRO mode."""
    __slots__ = ()

    def __new__(cls, impl='c', hashseed='0', iro='default', asan=False):
        return super().__new__(cls, impl, str(hashseed), iro, asan)

    def env(self):
        e = dict(os.environ)
        for k in list(e):
            if k.startswith('ZOPE_INTERFACE_') or k in ('PURE_PYTHON',):
                del e[k]
        e['PURE_PYTHON'] = '0' if self.impl == 'c' else '1'
        e['ZISIM_IMPL'] = self.impl
        e['PYTHONHASHSEED'] = self.hashseed
        e['PYTHONDONTWRITEBYTECODE'] = '1'
        e.pop('PYTHONOPTIMIZE', None)
        if self.iro.endswith('-O'):
            e['PYTHONOPTIMIZE'] = '1'       # the interpreter strips assert statements (python -O)
        if self.iro in ('strict', 'strict-track'):
            e['ZOPE_INTERFACE_STRICT_IRO'] = '1'
        if self.iro in ('track', 'strict-track'):
            e['ZOPE_INTERFACE_TRACK_BAD_IRO'] = '1'
        elif self.iro == 'legacy':
            e['ZOPE_INTERFACE_USE_LEGACY_IRO'] = '1'
        if self.asan == 'valgrind':
            e['PYTHONMALLOC'] = 'malloc'
        elif self.asan:
            e['LD_PRELOAD'] = build.ASAN_RT
            e['ASAN_OPTIONS'] = 'detect_leaks=0:abort_on_error=1:handle_segv=0'
            e['PYTHONMALLOC'] = 'malloc'
        e['PYTHONPATH'] = VERIF
        return e

    def label(self):
        return '%s/h%s/%s%s' % (self.impl, self.hashseed, self.iro,
                                '/valgrind' if self.asan == 'valgrind' else '/asan' if self.asan else '')

    def as_dict(self):
        return {'impl': self.impl, 'hashseed': self.hashseed, 'iro': self.iro, 'asan': self.asan}

    @classmethod
    def from_dict(cls, d):
        return cls(d.get('impl', 'c'), d.get('hashseed', '0'), d.get('iro', 'default'), d.get('asan', False))


class HarnessError(Exception):
    pass


class Worker:
    def __init__(self, config, snapshot):
        self.config = config
        logdir = os.path.join(build.BUILD_ROOT, 'logs')
        os.makedirs(logdir, exist_ok=True)
        self.errpath = os.path.join(logdir, 'worker-%d-%d.err' % (os.getpid(), id(self)))
        self.err = open(self.errpath, 'wb')
        cmd = [build.PYTHON, '-m', 'zisim.worker', snapshot]
        if config.asan == 'valgrind':
            # memcheck sees every access, also those libpython makes on behalf of the extension; a forked run that
            # touches freed or uninitialised memory exits at once with status 97 and is reported as a crash
            cmd = ['valgrind', '-q', '--error-exitcode=97', '--exit-on-first-error=yes', '--child-silent-after-fork=no'] + cmd
        self.p = subprocess.Popen(cmd,
                                  stdin=subprocess.PIPE, stdout=subprocess.PIPE, stderr=self.err,
                                  env=config.env(), cwd=VERIF, text=True, bufsize=1)
        line = self.p.stdout.readline()
        try:
            hello = json.loads(line)
        except ValueError:
            hello = {'hello': False, 'error': 'no hello: %r / %s' % (line, self.tail())}
        if not hello.get('hello'):
            self.close()
            raise HarnessError('worker start failed (%s): %s' % (config.label(), hello.get('error')))
        self.hello = hello

    def tail(self):
        try:
            self.err.flush()
            with open(self.errpath, 'rb') as fh:
                return fh.read()[-2000:].decode('utf8', 'replace')
        except OSError:
            return ''

    def call(self, req):
        try:
            self.p.stdin.write(json.dumps(req) + '\n')
            self.p.stdin.flush()
            line = self.p.stdout.readline()
        except (BrokenPipeError, OSError) as e:
            raise HarnessError('worker pipe broke: %s / %s' % (e, self.tail()))
        if not line:
            raise HarnessError('worker died (%s): %s' % (self.config.label(), self.tail()))
        return json.loads(line)

    def close(self):
        try:
            if self.p.poll() is None:
                try:
                    self.p.stdin.write('{"quit": true}\n')
                    self.p.stdin.flush()
                    self.p.stdin.close()
                except (BrokenPipeError, OSError, ValueError):
                    pass
                try:
                    self.p.wait(timeout=5)
                except subprocess.TimeoutExpired:
                    self.p.kill()
                    self.p.wait()
        finally:
            try:
                self.err.close()
                os.unlink(self.errpath)
            except OSError:
                pass


class Pool:
    """A set of workers keyed by Config; jobs are (config, request) pairs."""

    def __init__(self, snapshot=None, asan_snapshot=None):
        self.snapshot = snapshot or build.snapshot()
        self.asan_snapshot = asan_snapshot
        self.workers = {}    # config -> list of idle Worker
        self.lock = threading.Lock()
        self.all = []

    def _get(self, config):
        with self.lock:
            lst = self.workers.setdefault(config, [])
            if lst:
                return lst.pop()
        snap = self.snapshot
        if config.asan and config.asan != 'valgrind':
            if self.asan_snapshot is None:
                self.asan_snapshot = build.snapshot(asan=True)
            snap = self.asan_snapshot
        w = Worker(config, snap)
        with self.lock:
            self.all.append(w)
        return w

    def _put(self, w):
        with self.lock:
            self.workers.setdefault(w.config, []).append(w)

    def run_jobs(self, jobs, nthreads=None, deadline=None, progress=None):
        """jobs: list of (Config, request).  Returns responses in job order.
        A job that cannot be completed yields {'harness_error': ...}."""
        nthreads = min(nthreads or NCPU, max(1, len(jobs)))
        q = queue.Queue()
        for i, j in enumerate(jobs):
            q.put((i, j))
        out = [None] * len(jobs)
        done = [0]

        def loop():
            while True:
                try:
                    i, (config, req) = q.get_nowait()
                except queue.Empty:
                    return
                if deadline is not None and time.monotonic() > deadline:
                    out[i] = {'skipped': True}
                    continue
                try:
                    w = self._get(config)
                except HarnessError as e:
                    out[i] = {'harness_error': str(e)}
                    continue
                try:
                    req = dict(req)
                    req['id'] = i
                    out[i] = w.call(req)
                    self._put(w)
                except HarnessError as e:
                    out[i] = {'harness_error': str(e)}
                    w.close()
                done[0] += 1
                if progress:
                    progress(done[0], len(jobs))

        ts = [threading.Thread(target=loop, daemon=True) for _ in range(nthreads)]
        for t in ts:
            t.start()
        for t in ts:
            t.join()
        return out

    def close(self):
        with self.lock:
            ws, self.all = self.all, []
            self.workers = {}
        for w in ws:
            w.close()

    def __enter__(self):
        return self

    def __exit__(self, *a):
        self.close()


class Agg:
    """Aggregated counters of a batch of runs."""
    STATE_CAP = 3_000_000

    def __init__(self):
        self.runs = 0
        self.events = 0
        self.ops = 0
        self.probes = collections.Counter()
        self.faults = collections.Counter()
        self.states = set()
        self.sigs = set()
        self.violations = []      # full result dicts of violating runs
        self.crashes = []
        self.timeouts = []
        self.harness_errors = []
        self.digests = {}         # (config label, seed) -> digest
        self.per_config = collections.Counter()
        self.samples = []
        self.skipped = 0

    def add(self, config, item, res, keep_digests=False):
        try:
            self._add(config, item, res, keep_digests)
        except (TypeError, ValueError, AttributeError, KeyError):
            # a child whose heap was corrupted can return a well-formed JSON document with nonsense inside
            self.crashes.append((config, item, {'crash': -98, 'partial': 'malformed result from the child process'}))

    def _add(self, config, item, res, keep_digests=False):
        if res is None:
            return
        if res.get('harness_error'):
            self.harness_errors.append((config.label(), item, res['harness_error']))
            return
        if res.get('timeout'):
            self.timeouts.append((config.label(), item))
            return
        if res.get('crash') is not None:
            self.crashes.append((config, item, res))
            return
        self.runs += 1
        self.per_config[config.label()] += 1
        self.events += res.get('events', 0)
        self.ops += res.get('nops', 0)
        for k, v in (res.get('probes') or {}).items():
            self.probes[k] += v
        for k, v in (res.get('faults') or {}).items():
            self.faults[k] += v
        if len(self.states) < self.STATE_CAP:
            self.states.update(res.get('states') or ())
        if len(self.sigs) < self.STATE_CAP:
            self.sigs.update(res.get('sigs') or ())
        if keep_digests:
            self.digests[(config.label(), item.get('seed'))] = res.get('digest')
        if res.get('violations'):
            self.violations.append((config, item, res))
        if res.get('sample') is not None and len(self.samples) < 4:
            self.samples.append(res['sample'])


def chunks(lst, n):
    for i in range(0, len(lst), n):
        yield lst[i:i + n]


def run_seeds(pool, machine, mode, plan, batch=100, deadline=None, timeout=20.0,
              keep_digests=False, want_sample_every=0, nthreads=None, agg=None):
    """plan: list of (Config, [seeds])."""
    jobs = []
    meta = []
    k = 0
    for config, seeds in plan:
        for ch in chunks(seeds, batch):
            items = [{'seed': s} for s in ch]
            if want_sample_every and k % want_sample_every == 0 and items:
                items[0] = dict(items[0], want_sample=True)
            k += 1
            jobs.append((config, {'machine': machine, 'mode': mode, 'items': items, 'timeout': timeout}))
            meta.append((config, items))
    # interleave configs so a deadline cuts all of them evenly
    order = sorted(range(len(jobs)), key=lambda i: (i % 97, i))
    resp = pool.run_jobs([jobs[i] for i in order], deadline=deadline, nthreads=nthreads)
    agg = agg or Agg()
    for i, r in zip(order, resp):
        config, items = meta[i]
        if r is None or r.get('skipped'):
            agg.skipped += len(items)
            continue
        if r.get('harness_error'):
            agg.harness_errors.append((config.label(), None, r['harness_error']))
            continue
        for item, res in zip(items, r['results']):
            agg.add(config, item, res, keep_digests=keep_digests)
    return agg


def run_program(pool, config, machine, mode, program, want_log=False, timeout=30.0):
    req = {'machine': machine, 'mode': mode, 'items': [{'program': program, 'want_log': want_log}],
           'timeout': timeout}
    r = pool.run_jobs([(config, req)], nthreads=1)[0]
    if r.get('harness_error'):
        return {'harness_error': r['harness_error']}
    return r['results'][0]


def run_programs(pool, config, machine, mode, programs, want_log=False, timeout=30.0):
    jobs = [(config, {'machine': machine, 'mode': mode,
                      'items': [{'program': p, 'want_log': want_log}], 'timeout': timeout})
            for p in programs]
    out = []
    for r in pool.run_jobs(jobs):
        out.append({'harness_error': r['harness_error']} if r.get('harness_error') else r['results'][0])
    return out


def run_enum(pool, machine, mode, configs, programs, timeout=60.0, deadline=None, agg=None):
    """Run every program of a finite enumeration under every configuration."""
    jobs = []
    meta = []
    for config, _w in configs:
        for p in programs:
            item = {'program': p, 'want_sample': (p.get('block') == 0)}
            jobs.append((config, {'machine': machine, 'mode': mode, 'items': [item], 'timeout': timeout}))
            meta.append((config, item))
    resp = pool.run_jobs(jobs, deadline=deadline)
    agg = agg or Agg()
    for (config, item), r in zip(meta, resp):
        if r is None or r.get('skipped'):
            agg.skipped += 1
            continue
        if r.get('harness_error'):
            agg.harness_errors.append((config.label(), None, r['harness_error']))
            continue
        agg.add(config, {'program': item['program'], 'seed': None}, r['results'][0])
    return agg
