"""Machine `adapt` -- calling an interface under a fault plan (C14).

Every user callback on the adaptation path is a simulator stub whose behaviour
is dictated by the case's fault plan: `__conform__` (absent / returns None /
returns a value / raises / raises TypeError from inside / attribute access
raises AttributeError / attribute access raises something else / an instance
method looked up on a class), whether the object provides the interface, the
global hook list (hooks returning None / a value / raising / mutating the hook
list while it is being walked), an alternate or not, a custom `__adapt__`
defined with `interfacemethod` (returning None / a value / raising /
delegating to super), called on the interface itself or on a sub-interface
inheriting the custom class, and a registry's `adapter_hook` installed.

Oracle: AdaptModel, a few lines transcribing PEP 246 order, consuming the same
fault plan: returned value (by identity), raised type (for the final TypeError
also its arguments) and the call log of the stubs.

The product of the fault plan is finite and is enumerated completely
(`enum_programs`); seeded runs add random long sequences over shared interface
objects.
"""
import gc
import itertools
import random

from ..prng import Streams, h64
from .base import standard_run, Stop

MACHINE = 'adapt'
CUSTOMS = ['none', 'ret_none', 'ret_val', 'ret_falsy', 'raise', 'super']
CONFORMS = ['absent', 'none', 'value', 'raises', 'falsy', 'raises_attrerror', 'typeerror', 'attr_attrerror', 'attr_attrerror_sub', 'attr_raises', 'unbound']
HOOKS = ['none', 'value', 'falsy', 'raise', 'pop_last', 'clear', 'append', 'remove_self', 'reenter']
BLOCK = 1600
ENUM_NOTE = ('complete product {custom __adapt__: 6} x {__conform__: 10} x {provided: 2} x {hook lists of length 0-3 over 9 hook '
             'behaviours: 820} x {alternate: 2}, plus the sub-interface, registry-hook and tuple-object variants over the smaller hook alphabet; '
             'everything outside that product is sampled')


def all_cases(hook_alphabet=HOOKS, maxhooks=3):
    hooklists = [()] + [t for L in range(1, maxhooks + 1) for t in itertools.product(hook_alphabet, repeat=L)]
    for custom in CUSTOMS:
        for conform in CONFORMS:
            for provided in (False, True):
                for hooks in hooklists:
                    for alt in (False, True):
                        yield {'custom': custom, 'conform': conform, 'provided': provided, 'hooks': list(hooks), 'alt': alt,
                               'sub': False, 'reg': None}


def extra_cases():
    """sub-interface and registry-hook variants (smaller hook alphabet)"""
    hooklists = [()] + [t for L in (1, 2) for t in itertools.product(['none', 'value', 'raise', 'raise_si'], repeat=L)]
    for custom in CUSTOMS:
        for conform in ('absent', 'none', 'value', 'raises'):
            for provided in (False, True):
                for hooks in hooklists:
                    for alt in (False, True):
                        yield {'custom': custom, 'conform': conform, 'provided': provided, 'hooks': list(hooks), 'alt': alt,
                               'sub': True, 'reg': None}
                        # a sub-interface that adds an interface method of its own (a new generated class) still inherits __adapt__
                        yield {'custom': custom, 'conform': conform, 'provided': provided, 'hooks': list(hooks), 'alt': alt,
                               'sub': 'method', 'reg': None}
                        # ... also two and three generated generations below the interface that defines __adapt__
                        yield {'custom': custom, 'conform': conform, 'provided': provided, 'hooks': list(hooks), 'alt': alt,
                               'sub': 'method2', 'reg': None}
                        yield {'custom': custom, 'conform': conform, 'provided': provided, 'hooks': list(hooks), 'alt': alt,
                               'sub': 'method3', 'reg': None}
                        # __conform__ attached in other ways than as a plain method
                        if custom == 'none' and len(hooks) <= 1:
                            for cshape in ('static', 'instattr', 'callable'):
                                for cf in ('none', 'value', 'raises', 'typeerror', 'raises_attrerror'):
                                    if conform == 'absent':
                                        yield {'custom': custom, 'conform': cf, 'cshape': cshape, 'provided': provided, 'hooks': list(hooks),
                                               'alt': alt, 'sub': False, 'reg': None}
                        yield {'custom': custom, 'conform': conform, 'provided': provided, 'hooks': list(hooks), 'alt': alt,
                               'sub': False, 'reg': None, 'falsy_obj': True}
                        if len(hooks) <= 1:
                            for tl in (0, 1, 3):
                                yield {'custom': custom, 'conform': conform, 'provided': provided, 'hooks': list(hooks), 'alt': alt,
                                       'sub': False, 'reg': None, 'tuple_obj': tl}
                        for regpos in (0, len(hooks)):
                            for regkind in ('hit', 'miss', 'factory_none'):
                                yield {'custom': custom, 'conform': conform, 'provided': provided, 'hooks': list(hooks), 'alt': alt,
                                       'sub': False, 'reg': [regpos, regkind]}


def enum_programs(mode):
    cases = list(all_cases()) + list(extra_cases())
    out = []
    for i in range(0, len(cases), BLOCK):
        out.append({'machine': MACHINE, 'seed': None, 'block': i // BLOCK, 'ops': cases[i:i + BLOCK]})
    return out


def generate(seed, mode):
    S = Streams(seed)
    o = S('ops')
    n = o.randint(20, 120)
    ops = []
    for _ in range(n):
        nh = o.choice([0, 1, 1, 2, 2, 3, 4])
        c = {'custom': o.choice(CUSTOMS), 'conform': o.choice(CONFORMS), 'provided': o.random() < 0.3,
             'hooks': [o.choice(HOOKS) for _ in range(nh)], 'alt': o.random() < 0.5, 'sub': (lambda x: 'method' if x < 0.06 else 'method2' if x < 0.09 else 'method3' if x < 0.12 else x < 0.3)(o.random()), 'reg': None,
             'falsy_obj': o.random() < 0.25}
        if h64(seed, 'tuple-object', len(ops)) % 8 == 0:
            c['tuple_obj'] = h64(seed, 'tuple-len', len(ops)) % 4
        if h64(seed, 'churn', len(ops)) % 6 == 0:
            c['churn'] = True
        if o.random() < 0.25:
            c['reg'] = [o.randint(0, nh), o.choice(['hit', 'miss', 'factory_none'])]
        ops.append(c)
    return {'machine': MACHINE, 'seed': seed, 'ops': ops}


class E1(Exception):
    pass


class E2(Exception):
    pass


def execute(program, ctx, mode):
    from zope.interface import Interface, directlyProvides, interfacemethod
    from zope.interface.interface import adapter_hooks
    from zope.interface.adapter import AdapterRegistry

    calls = []
    ADAPT_VAL = object()
    CONF_VAL = object()
    ALT = object()
    REG_VAL = object()

    class Falsy:
        # adapters that are false in a boolean context are still adapters: only None means "no"
        def __bool__(self):
            return False

        def __len__(self):
            return 0
    FALSY_HOOK = Falsy()
    FALSY_CONF = Falsy()
    FALSY_ADAPT = Falsy()
    hook_vals = {}
    ifaces = {}

    def mk_iface(custom, fresh=False):
        if custom in ifaces and not fresh:
            return ifaces[custom]
        if custom == 'none':
            class I(Interface):
                pass
        else:
            class I(Interface):
                @interfacemethod
                def __adapt__(self, obj):
                    calls.append('custom_adapt' if obj is cur['ob'] else 'custom_adapt:other-object')
                    if custom == 'ret_none':
                        return None
                    if custom == 'ret_val':
                        return ADAPT_VAL
                    if custom == 'ret_falsy':
                        return FALSY_ADAPT
                    if custom == 'raise':
                        raise E2('adapt')
                    return super(type(I), self).__adapt__(obj)
        I.__name__ = 'IA_' + custom

        class J(I):
            pass
        J.__name__ = 'JA_' + custom

        class K(I):
            @interfacemethod
            def helper(self):
                return 'helper'
        K.__name__ = 'KA_' + custom

        class K2(K):
            @interfacemethod
            def helper2(self):
                return 'helper2'
        K2.__name__ = 'K2A_' + custom

        class K3(K2):
            @interfacemethod
            def helper3(self):
                return 'helper3'
        K3.__name__ = 'K3A_' + custom
        if fresh:
            return (I, J, K, K2, K3)
        ifaces[custom] = (I, J, K, K2, K3)
        return ifaces[custom]

    class AttrErrSub(AttributeError):
        pass

    def mk_obj(conform, provided, I, falsy=False, cshape=None, tup=None):
        ns = {}
        if falsy:
            ns['__bool__'] = lambda self: False
            ns['__len__'] = lambda self: 0
        if conform == 'absent':
            pass
        elif conform in ('attr_attrerror', 'attr_attrerror_sub'):
            def g(self):
                calls.append('conform_get')
                # (a subclass of AttributeError, as record- or proxy-style __getattr__ implementations raise, is a missing attribute too)
                raise (AttrErrSub if conform == 'attr_attrerror_sub' else AttributeError)('__conform__')
            ns['__conform__'] = property(g)
        elif conform == 'attr_raises':
            def g(self):
                calls.append('conform_get')
                raise E1('get')
            ns['__conform__'] = property(g)
        else:
            def c(self, iface):
                calls.append('conform')
                if conform in ('none', 'unbound'):
                    return None
                if conform == 'value':
                    return CONF_VAL
                if conform == 'falsy':
                    return FALSY_CONF
                if conform == 'raises':
                    raise E1('conform')
                if conform == 'raises_attrerror':
                    raise AttributeError('inside the __conform__ body')
                if conform == 'typeerror':
                    raise TypeError('inner')
            if cshape == 'static':
                ns['__conform__'] = staticmethod(lambda iface: c(None, iface))
            elif cshape == 'callable':
                class CallableConform:
                    def __call__(self_, iface):
                        return c(None, iface)
                ns['__conform__'] = CallableConform()
            elif cshape == 'instattr':
                pass            # set on the instance below
            else:
                ns['__conform__'] = c
        # (the adapted object may itself be a tuple -- of no, one or several elements: it is one argument, not an argument list)
        cls = type('Ob', (object,) if tup is None else (tuple,), ns)
        if tup is not None and conform != 'unbound':
            ob = cls([object()] * tup)
            if cshape == 'instattr' and conform not in ('absent', 'attr_attrerror', 'attr_attrerror_sub', 'attr_raises'):
                ob.__conform__ = lambda iface: c(ob, iface)
            if provided:
                directlyProvides(ob, I)
            return ob
        if conform == 'unbound':
            ob = cls            # the object is a class; its __conform__ is an instance method
        else:
            ob = cls()
            if cshape == 'instattr' and conform not in ('absent', 'attr_attrerror', 'attr_attrerror_sub', 'attr_raises'):
                ob.__conform__ = lambda iface: c(ob, iface)
        if provided:
            directlyProvides(ob, I)
        return ob

    cur = {'I': None, 'ob': None, 'depth': 0}

    class INested(Interface):
        pass
    nested_ob = type('NestedOb', (object,), {})()

    def tags(iface, ob):
        return '%s:%s' % ('I' if iface is cur['I'] else ('N' if iface is INested else '?'),
                          'OBJ' if ob is cur['ob'] else ('NOB' if ob is nested_ob else '?'))

    def mk_hook(kind, n, lst):
        def h(iface, ob):
            calls.append('hook:%s:%s' % (h.label, tags(iface, ob)))
            if kind == 'value':
                return hook_vals.setdefault(h.label, object())
            if kind == 'falsy':
                return FALSY_HOOK
            if kind == 'raise':
                raise E2(h.label)
            if kind == 'raise_si':
                raise StopIteration(h.label)      # (e.g. a bare next() on an empty iterator inside the hook)
            if kind == 'pop_last':
                if adapter_hooks:
                    adapter_hooks.pop()
            elif kind == 'clear':
                del adapter_hooks[:]
            elif kind == 'append':
                adapter_hooks.append(mk_hook('value', '%s+' % n, lst))
            elif kind == 'remove_self':
                if h in adapter_hooks:
                    adapter_hooks.remove(h)
            elif kind == 'reenter' and cur['depth'] == 0:
                # a hook that itself adapts something else (a miss) while the outer adaptation is in progress
                cur['depth'] = 1
                try:
                    INested(nested_ob, None)
                finally:
                    cur['depth'] = 0
            return None
        h.label = '%s%s' % (kind, n)
        h.kind = kind
        return h

    def model(case, ob, I, hooks):
        """-> (outcome, expected call log).  hooks: the actual stub list (copied; mutations are simulated)"""
        log = []
        conform = case['conform']
        if conform in ('attr_attrerror', 'attr_attrerror_sub'):
            log.append('conform_get')
        elif conform == 'attr_raises':
            log.append('conform_get')
            return ('raise', 'E1'), log
        elif conform == 'unbound':
            pass            # calling the plain function with one argument fails before the stub body runs
        elif conform != 'absent':
            log.append('conform')
            if conform == 'value':
                return ('ret', CONF_VAL), log
            if conform == 'falsy':
                return ('ret', FALSY_CONF), log
            if conform == 'raises':
                return ('raise', 'E1'), log
            if conform == 'raises_attrerror':
                return ('raise', 'AttributeError'), log
            if conform == 'typeerror':
                return ('raise', 'TypeError:inner'), log
        lst = list(hooks)

        def walk(depth):
            tg = 'I:OBJ' if depth == 0 else 'N:NOB'
            i = 0
            while i < len(lst):
                h = lst[i]
                i += 1
                if getattr(h, 'is_reg', False):
                    log.append('reghook:' + tg)
                    if depth == 0:
                        if h.kind == 'hit':
                            log.append('factory')
                            return ('ret', REG_VAL)
                        if h.kind == 'factory_none':
                            log.append('factory')
                    continue
                log.append('hook:%s:%s' % (h.label, tg))
                k = h.kind
                if k == 'value':
                    return ('ret', hook_vals.setdefault(h.label, object()))
                if k == 'falsy':
                    return ('ret', FALSY_HOOK)
                if k == 'raise':
                    return ('raise', 'E2')
                if k == 'raise_si':
                    return ('raise', 'StopIteration')
                if k == 'pop_last':
                    if lst:
                        lst.pop()
                elif k == 'clear':
                    del lst[:]
                elif k == 'append':
                    nh = mk_hook('value', '%s+' % h.label[len(k):], None)
                    lst.append(nh)
                elif k == 'remove_self':
                    if h in lst:
                        j = lst.index(h)
                        del lst[j]
                elif k == 'reenter' and depth == 0:
                    r = walk(1)
                    if r is not None and r[0] == 'raise':
                        return r
            return None

        def default_adapt():
            if case['provided']:
                return ('ret', ob)
            return walk(0)
        custom = case['custom']
        if custom == 'none':
            r = default_adapt()
        else:
            log.append('custom_adapt')
            if custom == 'ret_none':
                r = None
            elif custom == 'ret_val':
                r = ('ret', ADAPT_VAL)
            elif custom == 'ret_falsy':
                r = ('ret', FALSY_ADAPT)
            elif custom == 'raise':
                r = ('raise', 'E2')
            else:
                r = default_adapt()
        if r is not None:
            return r, log
        if case['alt']:
            return ('ret', ALT), log
        return ('raise', 'TypeError:Could not adapt'), log

    # a registry whose adapter_hook can be installed as one of the hooks
    class RegHook:
        is_reg = True

        def __init__(self, kind, I):
            self.kind = kind
            self.label = 'reg'
            self.reg = AdapterRegistry()
            if kind == 'hit':
                self.reg.register((None,), I, '', self.factory_hit)
            elif kind == 'factory_none':
                self.reg.register((None,), I, '', self.factory_none)
            self.I = I

        def factory_hit(self, ob):
            calls.append('factory')
            return REG_VAL

        def factory_none(self, ob):
            calls.append('factory')
            return None

        def __call__(self, iface, ob):
            calls.append('reghook:' + tags(iface, ob))
            return self.reg.adapter_hook(iface, ob)

    try:
        for step, case in enumerate(program['ops']):
            ctx.step = step
            ctx.nops += 1
            if case.get('churn'):
                # interface churn: a throw-away interface with an interface method of its own is adapted to, dropped and
                # collected; the interfaces of this case are then created afresh (whatever is remembered per interface *type*
                # must not survive the type: the new types may well get the freed addresses)
                class Tmp(Interface):
                    @interfacemethod
                    def helper(self):
                        return None
                del adapter_hooks[:]          # (the hooks of the previous case are still installed)
                Tmp(object(), None)
                del Tmp
                gc.collect()
                ctx.fault('gc-after-dropping-an-interface')
                I0, J0, K0, K20, K30 = mk_iface(case['custom'], fresh=True)
            else:
                I0, J0, K0, K20, K30 = mk_iface(case['custom'])
            I = {'method': K0, 'method2': K20, 'method3': K30}.get(case.get('sub')) or (J0 if case.get('sub') else I0)
            hook_vals.clear()
            ob = mk_obj(case['conform'], case['provided'], I, case.get('falsy_obj', False), case.get('cshape'), case.get('tuple_obj'))
            hooks = [mk_hook(k, i, None) for i, k in enumerate(case['hooks'])]
            if case.get('reg'):
                pos, kind = case['reg']
                rh = RegHook(kind, I)
                hooks.insert(min(pos, len(hooks)), rh)
            adapter_hooks[:] = hooks
            cur['I'], cur['ob'], cur['depth'] = I, ob, 0
            exp, elog = model(case, ob, I, hooks)
            del calls[:]
            try:
                # the call style rotates: positional, keyword, mixed
                style = step % 3
                if style == 1:
                    r = I(obj=ob, alternate=ALT) if case['alt'] else I(obj=ob)
                elif style == 2:
                    r = I(ob, alternate=ALT) if case['alt'] else I(ob)
                else:
                    r = I(ob, ALT) if case['alt'] else I(ob)
                got = ('ret', r)
            except BaseException as e:     # noqa
                nm = type(e).__name__
                if type(e) is TypeError:
                    a0 = e.args[0] if e.args else ''
                    nm = 'TypeError:%s' % (a0,)
                    if a0 == 'Could not adapt' and not (len(e.args) == 3 and e.args[1] is ob and e.args[2] is I):
                        nm = 'TypeError:Could not adapt(bad-args)'
                got = ('raise', nm)
            if case['alt']:
                ctx.fault('alternate-given')
            for k in case['hooks']:
                ctx.fault('hook-' + k)
            ctx.fault('conform-' + case['conform'])
            ctx.fault('custom-' + case['custom'])
            ok = (got[0] == exp[0]) and ((got[1] is exp[1]) if got[0] == 'ret' else (got[1] == exp[1]))
            ctx.state(case['custom'], case['conform'], case['provided'], tuple(case['hooks']), case['alt'], case.get('sub'),
                      tuple(case.get('reg') or ()))

            def show(x):
                if x[0] == 'raise':
                    return x
                v = x[1]
                for nm, o_ in (('OBJ', ob), ('CONF', CONF_VAL), ('ADAPT', ADAPT_VAL), ('ALT', ALT), ('REG', REG_VAL),
                               ('FALSY_HOOK', FALSY_HOOK), ('FALSY_CONF', FALSY_CONF), ('FALSY_ADAPT', FALSY_ADAPT)):
                    if v is o_:
                        return ('ret', nm)
                for lbl, hv in hook_vals.items():
                    if v is hv:
                        return ('ret', 'HOOK:' + lbl)
                return ('ret', type(v).__name__)
            ctx.log(step, case['custom'], case['conform'], case['provided'], case['hooks'], case['alt'], case.get('sub'),
                    case.get('reg'), show(got), list(calls))
            if not ok:
                def cat(x):
                    v = show(x)[1] if x[0] == 'ret' else x[1]
                    return v.split(':')[0] if v.startswith('HOOK') else v
                mut = any(k in ('pop_last', 'clear', 'append', 'remove_self', 'reenter') for k in case['hooks'])
                ctx.violation('C14', 'outcome', 'C14|outcome|%s-instead-of-%s%s' % (cat(got), cat(exp), '|hook-list-mutated-by-hook' if mut else ''),
                              {'case': case, 'got': show(got), 'want': show(exp), 'calls': list(calls)})
            elif list(calls) != elog:
                ctx.violation('C14', 'call-log', 'C14|call-log|%s' % ('later-step-executed' if len(calls) > len(elog) else 'step-skipped'),
                              {'case': case, 'calls': list(calls), 'want': elog})
            # with only a registry's adapter_hook installed: I(obj, alt) == registry.queryAdapter(obj, I, default=alt)
            if case.get('reg') and len(hooks) == 1 and case['conform'] == 'absent' and not case['provided'] and case['custom'] == 'none':
                q = rh.reg.queryAdapter(ob, I, default=ALT) if case['alt'] else rh.reg.queryAdapter(ob, I)
                if got[0] == 'ret' and q is not got[1]:
                    ctx.violation('C14', 'registry-hook', 'C14|registry-hook|differs-from-queryAdapter', {'case': case})
                if got[0] == 'raise' and q is not None:
                    ctx.violation('C14', 'registry-hook', 'C14|registry-hook|differs-from-queryAdapter', {'case': case})
    finally:
        adapter_hooks[:] = []


def simplifiers():
    def drop_hooks(prog):
        for i, c in enumerate(prog['ops']):
            for j in range(len(c['hooks'])):
                p = dict(prog)
                ops = list(prog['ops'])
                c2 = dict(c)
                c2['hooks'] = c['hooks'][:j] + c['hooks'][j + 1:]
                if c2.get('reg'):
                    c2['reg'] = [min(c2['reg'][0], len(c2['hooks'])), c2['reg'][1]]
                ops[i] = c2
                p['ops'] = ops
                yield p
    return [drop_hooks]


def describe(program):
    return {'ops': program['ops'][:6]}


def run(req, item):
    return standard_run(generate, execute, req, item, describe)
