"""Shared run context for all machines (executed inside the forked child)."""
import collections
import gc
import hashlib

from ..prng import h64


class Stop(Exception):
    """Raised to end a run after the first violation."""


class Ctx:
    def __init__(self, want_log=False, stop_on_violation=True):
        self.h = hashlib.sha256()
        self.lines = [] if want_log else None
        self.events = 0
        self.nops = 0
        self.violations = []
        self.probes = collections.Counter()
        self.faults = collections.Counter()
        self.states = set()
        self.sigs = set()
        self.step = -1
        self.stop_on_violation = stop_on_violation

    def log(self, *parts):
        line = ' '.join([p if isinstance(p, str) else repr(p) for p in parts])
        self.h.update(line.encode('utf8', 'backslashreplace') + b'\n')
        self.events += 1
        if self.lines is not None:
            self.lines.append(line)

    def violation(self, prop, kind, fingerprint, detail=None):
        self.violations.append({'property': prop, 'kind': kind, 'fingerprint': fingerprint,
                                'detail': detail, 'step': self.step})
        self.log('VIOLATION', prop, fingerprint)
        if self.stop_on_violation:
            raise Stop()

    def probe(self, name, n=1):
        self.probes[name] += n

    def fault(self, name, n=1):
        self.faults[name] += n

    def state(self, *parts):
        self.states.add(h64(*parts) & 0xFFFFFFFFFFFF)

    def sig(self, *parts):
        self.sigs.add(h64(*parts) & 0xFFFFFFFFFFFF)

    def result(self, seed=None, program=None, want_program=False, sample=None):
        r = {'seed': seed, 'digest': self.h.hexdigest()[:24], 'events': self.events, 'nops': self.nops,
             'violations': self.violations, 'probes': dict(self.probes), 'faults': dict(self.faults),
             'states': sorted(self.states), 'sigs': sorted(self.sigs)}
        if self.lines is not None:
            r['log'] = self.lines
        if program is not None and (want_program or self.violations):
            r['program'] = program
        if sample is not None:
            r['sample'] = sample
        return r


def standard_run(generate, execute, req, item, describe=None):
    """Common entry point: item is {'seed': n} or {'program': {...}}."""
    mode = req.get('mode') or {}
    if 'program' in item:
        program = item['program']
        seed = program.get('seed')
    else:
        seed = item['seed']
        program = generate(seed, mode)
    ctx = Ctx(want_log=item.get('want_log', False))
    gc.disable()
    try:
        execute(program, ctx, mode)
    except Stop:
        pass
    sample = None
    if item.get('want_sample'):
        sample = describe(program) if describe else program
    return ctx.result(seed=seed, program=program, want_program=item.get('want_program', False), sample=sample)


def c3(node, bases_of, memo=None):
    """Independent C3 linearisation; raises ValueError when none exists."""
    memo = {} if memo is None else memo
    if node in memo:
        return memo[node]
    bs = list(bases_of[node])
    seqs = [list(c3(b, bases_of, memo)) for b in bs] + [bs]
    res = [node]
    while True:
        seqs = [s for s in seqs if s]
        if not seqs:
            break
        for s in seqs:
            cand = s[0]
            if not any(cand in t[1:] for t in seqs):
                break
        else:
            raise ValueError('inconsistent')
        res.append(cand)
        for s in seqs:
            if s[0] == cand:
                del s[0]
    memo[node] = res
    return res


def reach(bases_of, i, acc=None):
    acc = set() if acc is None else acc
    for b in bases_of[i]:
        if b not in acc:
            acc.add(b)
            reach(bases_of, b, acc)
    return acc
