"""Machine `race` -- lookups racing mutations (C11).

Part A, re-entrancy (mode['part'] == 'reenter'; single thread, enumerated completely):
    entry point x callback point the lookup can reach x injected action x cache state x registry flavour.
    Callback points: lazy `required` iterable, `__providedBy__` descriptor of the looked-up object, overridden
    `_uncached_lookup` / `_uncached_lookupAll` / `_uncached_subscriptions` (action before or after delegating), a
    required specification with Python-level `subscribe`, `_generation` as a property on the base of a verifying
    registry, an overridden `changed` of the lookup object, the factory / subscriber.
    Actions: register / unregister / subscribe / unsubscribe on the same or the base registry, registry `__bases__`
    assignment, re-basing a required interface, class declaration change, `rebuild()`, `changed()`, recursive lookup
    of the same or another key, gc (with a finalizer that mutates), raise.

Part B, threads (mode['part'] == 'threads'; seeded schedules):
    2-4 real threads, one runnable at a time (baton passing); `sys.settrace` line events inside zope/interface/*.py
    and inside the simulator's stubs are the pre-emption points; the schedule PRNG decides who runs next.  k lookup
    threads over a small key pool, 0-1 mutator thread; lookup-only configurations on verifying registries whose base
    was modified before the threads start.

Oracles: ownership audit of the cache dictionaries at callback exit (a dictionary nobody owns that is written
afterwards is a use-after-free when the auditor is not there), answer in {before, after}, final re-ask equals the
final state, no unexpected exception, reference balance over repetitions, process exit status (crash).
"""
import gc
import itertools
import random
import sys
import threading
import traceback

from ..prng import Streams, h64
from .base import standard_run, Stop

MACHINE = 'race'
ENTRIES = ['lookup', 'lookup1', 'lookupAll', 'names', 'subscriptions',
           'queryAdapter', 'adapter_hook', 'queryMultiAdapter', 'subscribers']
SPEC_ENTRIES = ENTRIES[:5]
OBJ_ENTRIES = ENTRIES[5:]
POINTS = ['lazy_required', 'providedBy_descriptor', 'uncached_before', 'uncached_after', 'spec_subscribe',
          'generation_property', 'changed_override', 'changed_before', 'factory', 'name_hash', 'name_len',
          'provided_hash', 'required_hash']
ACTIONS = ['register', 'register_other_key', 'unregister', 'subscribe', 'unsubscribe', 'register_base', 'rbases', 'irebase',
           'cdecl', 'rebuild', 'changed', 'relookup_same', 'relookup_other', 'gc_finalizer', 'finalizer_lookup', 'raise',
           'register_unreadable']
CACHES = ['cold', 'warm', 'sibling']
# functions of zope/interface in which a mutation (or a cache refresh) is in flight: where the 'burst' policy places its switches
BURST_SITES = ['changed', 'changed', 'changed', 'register', 'unregister', 'subscribe', 'unsubscribe', '_setBases', 'rebuild',
               'add_extendor', 'remove_extendor', 'init_extendors', '_subscribe', '_verify', '__setBases', '_uncached_lookup',
               '_uncached_lookupAll', '_uncached_subscriptions', '_addSubregistry', '_removeSubregistry', 'unsubscribe', 'dependents']
BLOCK = 400
ENUM_NOTE = ('complete product {registry flavour: 2} x {entry point: 9} x {callback point: 13} x {action: 17} x {cache state: 3} '
             'restricted to the combinations in which the entry point can reach the callback point; thread schedules are sampled')


def applicable(flav, entry, point):
    if point == 'lazy_required':
        return entry in ('lookup', 'lookupAll', 'names', 'subscriptions')
    if point == 'providedBy_descriptor':
        return entry in OBJ_ENTRIES
    if point in ('generation_property', 'changed_override', 'changed_before'):
        return flav == 'V'
    if point == 'factory':
        return entry in OBJ_ENTRIES
    if point in ('name_hash', 'name_len'):
        # the name handed to the lookup is an instance of a str subclass whose __hash__ / __len__ are Python code: they run
        # when the lookup probes its per-name cache (and when it asks whether the name is empty)
        return entry in ('lookup', 'lookup1', 'queryAdapter', 'adapter_hook', 'queryMultiAdapter')
    if point == 'required_hash':
        # the looked-up specification is an instance of an InterfaceClass subclass whose __hash__ is Python code: it runs
        # when the lookup probes its cache for the key (object entries look up the class's specification instead)
        return entry in SPEC_ENTRIES
    return True


def all_cases():
    for flav in ('A', 'V'):
        for entry in ENTRIES:
            for point in POINTS:
                if not applicable(flav, entry, point):
                    continue
                for action in ACTIONS:
                    for cache in CACHES:
                        yield {'flav': flav, 'entry': entry, 'point': point, 'action': action, 'cache': cache}


def enum_programs(mode):
    cases = list(all_cases())
    if mode.get('stride') and mode.get('tier') == 'quick':
        cases = cases[::mode['stride']]       # memcheck is ~40x slower: the quick tier runs every n-th case (n = mode['stride']), the thorough tier all
    blk = mode.get('block', BLOCK)
    return [{'machine': MACHINE, 'seed': None, 'block': i // blk, 'part': 'reenter', 'ops': cases[i:i + blk]}
            for i in range(0, len(cases), blk)]


def generate(seed, mode):
    S = Streams(seed)
    w = S('world')
    o = S('ops')
    if mode.get('part') == 'reenter':
        cases = list(all_cases())
        return {'machine': MACHINE, 'seed': seed, 'part': 'reenter', 'ops': [o.choice(cases) for _ in range(o.randint(10, 40))]}
    # threads
    flav = w.choice(['A', 'A', 'V', 'V', 'M'])
    nlook = w.choice([1, 2, 2, 3])
    lookup_only = w.random() < 0.25
    nkeys = w.randint(2, 4)
    keys = [{'e': w.randrange(len(ENTRIES)), 'req': [w.randrange(3) for _ in range(w.choice([1, 1, 2]))], 'n': w.randrange(2),
             'p': w.choice([0, 0, 0, 1, 2])} for _ in range(nkeys)]
    if w.random() < 0.5 and nkeys > 1:
        keys[1] = dict(keys[0])           # two threads asking the identical key: overlapping first lookups
    threads = []
    for t in range(nlook):
        threads.append({'kind': 'lookup', 'ops': [{'key': o.randrange(nkeys)} for _ in range(o.randint(2, 6))]})
    pre = [{'m': o.choice(['reg', 'sub', 'regbase']), 'req': [o.randrange(3) for _ in range(o.choice([1, 1, 2]))], 'n': o.randrange(2),
            'v': o.randrange(4), 'p': o.choice([0, 0, 1, 2])} for _ in range(o.randint(0, 5))]
    if not lookup_only:
        threads.append({'kind': 'mutator', 'ops': [{'m': o.choice(['reg', 'reg', 'unreg', 'sub', 'unsub', 'regbase', 'rbases', 'irebase', 'cdecl', 'rebuild']),
                                                    'req': [o.randrange(3) for _ in range(o.choice([1, 1, 2]))], 'n': o.randrange(2),
                                                    'v': o.randrange(4), 'p': o.choice([0, 1, 1, 2, 2])} for _ in range(o.randint(1, 5))]})
    if not lookup_only and h64(seed, 'extendors-pattern') % 6 == 0:
        # fault placement: the list of interfaces that extend the requested one is long (three entries) and loses / regains its
        # first entry while lookup threads walk it; the first entry has no registration under the looked-up key, so the
        # answer is the same before and after every mutation -- and a reader that skips an entry returns another one
        pre = [{'m': 'reg', 'req': [2], 'n': 0, 'v': 0, 'p': 0}, {'m': 'reg', 'req': [0], 'n': 0, 'v': 1, 'p': 1},
               {'m': 'reg', 'req': [0], 'n': 0, 'v': 2, 'p': 2}]
        keys[0] = {'e': o.choice([0, 1, 5, 6, 7]), 'req': [1], 'n': 0, 'p': 0}
        for t in threads:
            if t['kind'] == 'lookup':
                t['ops'] = [{'key': 0} for _ in range(o.randint(4, 8))]
            else:
                t['ops'] = [{'m': ('unreg', 'reg')[j % 2], 'req': [2], 'n': 0, 'v': 0, 'p': 0} for j in range(o.randint(3, 7))]
    spec_after = not lookup_only and h64(seed, 'spec-change-after-registry-change') % 5 == 0
    if spec_after:
        # fault placement: a change of the registry (the lookup object forgets what it is subscribed to and subscribes again on
        # the next lookup) and later a change of what a looked-up specification extends -- whatever a lookup thread cached while
        # the first one was in flight must still be discarded by the second
        pr0 = random.Random(h64(seed, 'spec-after'))
        how = pr0.choice(['cdecl', 'irebase'])
        keys[0] = ({'e': pr0.choice([5, 6, 7, 8]), 'req': [1], 'n': 0, 'p': 0} if how == 'cdecl'
                   else {'e': pr0.randrange(len(ENTRIES)), 'req': [1], 'n': 0, 'p': 0})
        pre = pre + [{'m': 'reg', 'req': [0], 'n': 0, 'v': 1, 'p': 0}, {'m': 'reg', 'req': [2], 'n': 0, 'v': 2, 'p': 0},
                     {'m': 'sub', 'req': [0], 'n': 0, 'v': 1, 'p': 0}, {'m': 'sub', 'req': [2], 'n': 0, 'v': 2, 'p': 0}]
        for t in threads:
            if t['kind'] == 'lookup':
                t['ops'] = [{'key': 0 if pr0.random() < 0.8 else pr0.randrange(nkeys)} for _ in range(pr0.randint(2, 5))]
            else:
                first = [{'m': pr0.choice(['reg', 'unreg', 'sub', 'regbase']), 'req': [pr0.randrange(3)], 'n': 1, 'v': pr0.randrange(4), 'p': 0}
                         for _ in range(pr0.randint(1, 2))]
                t['ops'] = first + [{'m': how, 'req': [0], 'n': 0, 'v': 0, 'p': 0}]
    for t in threads:
        if t['kind'] == 'mutator':
            for j, m in enumerate(t['ops']):
                if spec_after:
                    break
                if h64(seed, 'gc-mutation', j) % 8 == 0:
                    m['m'] = 'gc'          # a collection in the mutator thread: weak reference callbacks fire while lookups are in flight
    # scheduling policy (swarm knob).  'uniform': every line event is a pre-emption point with probability p_switch.  'burst'
    # (one world in two): threads have priorities and the highest one runs undisturbed; at one to three *change points* --
    # the k-th line event inside one of the functions in which a mutation is in flight -- the running thread drops to the
    # lowest priority, so that the others run whole operations inside that window (a handful of well-placed switches and
    # long excursions instead of many short ones)
    pr = random.Random(h64(seed, 'burst-policy'))
    policy = 'burst' if pr.random() < 0.5 else 'uniform'
    points = [[pr.choice(BURST_SITES), pr.randint(1, 12)] for _ in range(pr.choice([2, 3, 3, 4]))]
    return {'machine': MACHINE, 'seed': seed, 'part': 'threads',
            'world': {'policy': policy, 'points': points, 'spec_after': spec_after, 'flav': flav, 'opcodes': h64(seed, 'opcode-granularity') % 4 == 0, 'keys': keys, 'pre': pre, 'lookup_only': lookup_only, 'late_base_change': lookup_only or w.random() < 0.3,
                      'p_switch': w.choice([0.05, 0.15, 0.4]), 'sched_seed': w.getrandbits(30), 'warm': (w.random() < 0.5) or spec_after},
            'ops': threads}


class Injected(Exception):
    pass


def norm(r):
    """results -> address-free text for the event log"""
    if callable(r) and hasattr(r, '__name__'):
        return r.__name__
    if isinstance(r, (list, tuple)):
        return '[' + ', '.join(norm(x) for x in r) + ']'
    return repr(r)


def saturate(flush=False):
    """Sanitizer runs only.  CPython parks released dictionaries on free lists, where AddressSanitizer cannot see a
    later write through a dangling pointer.  Before a mutation the free lists are filled (so that what the library
    releases next goes back to malloc and is poisoned); after it a full collection empties them
    (`clear_freelists` in gc_collect_main), which really frees whatever was parked meanwhile."""
    a = [dict(a=1) for _ in range(120)]
    b = [{} for _ in range(120)]
    del a, b
    if flush:
        gc.collect()


# --------------------------------------------------------------------------
# Part A
# --------------------------------------------------------------------------

def zope_frame_of(e):
    tb = traceback.extract_tb(e.__traceback__)
    frames = [f for f in tb if 'zope/interface' in f.filename]
    return '%s:%s' % (frames[-1].filename.rsplit('/', 1)[-1], frames[-1].name) if frames else 'stub'


def execute_reenter(program, ctx, mode):
    from zope.interface import Interface, implementer, implementedBy, providedBy, classImplementsOnly, classImplements
    from zope.interface.interface import InterfaceClass
    from zope.interface.adapter import (AdapterRegistry, VerifyingAdapterRegistry, AdapterLookup, VerifyingAdapterLookup)
    import weakref as _weakref
    import os as _os
    is_c = _os.environ.get('ZISIM_IMPL', 'c') == 'c'
    asan = bool(mode.get('asan'))        # sanitizer replay: no pins (a pinned dictionary is never freed), no audit
    serial = [0]

    def run_case(case, repeat_check=False):
        serial[0] += 1
        tag = 'c%d_' % serial[0]
        flav, entry, point, action, cache_state = case['flav'], case['entry'], case['point'], case['action'], case['cache']
        armed = [False]
        fired = [0]
        audit = {'pins': [], 'snap': [], 'unowned': [], 'lookup': None}
        calls = []

        def fire(where):
            """called from every callback point; performs the action once when armed"""
            if not armed[0] or where != point:
                return
            armed[0] = False
            fired[0] += 1
            lk = audit['lookup']
            if asan:
                saturate()
                try:
                    do_action()
                finally:
                    saturate(flush=True)
                return
            if lk is not None:
                pin(lk)
            try:
                do_action()
            finally:
                if lk is not None:
                    judge()

        NM = 'n' if point in ('name_hash', 'name_len') else ''

        class HName(str):
            def __hash__(self):
                fire('name_hash')
                return str.__hash__(self)

            def __eq__(self, other):
                return str.__eq__(self, other)

            def __ne__(self, other):
                return str.__ne__(self, other)

            def __len__(self):
                fire('name_len')
                return str.__len__(self)

        # ---- specs (R0 possibly with a Python-level subscribe) ----------------------------------------------
        class HookedIC(InterfaceClass):
            def subscribe(self, dependent):
                fire('spec_subscribe')
                return InterfaceClass.subscribe(self, dependent)
        IC = HookedIC if point == 'spec_subscribe' else InterfaceClass

        class HashIC(InterfaceClass):
            def __hash__(self):
                fire(self.__dict__.get('_zisim_point'))
                return InterfaceClass.__hash__(self)
        R0 = IC(tag + 'R0', (Interface,), {}, __module__='zisim.x')
        R1 = (HashIC if point == 'required_hash' else IC)(tag + 'R1', (R0,), {}, __module__='zisim.x')
        R2 = InterfaceClass(tag + 'R2', (Interface,), {}, __module__='zisim.x')
        P0 = (HashIC if point == 'provided_hash' else InterfaceClass)(tag + 'P0', (Interface,), {}, __module__='zisim.x')
        if point == 'required_hash':
            R1._zisim_point = 'required_hash'
        if point == 'provided_hash':
            P0._zisim_point = 'provided_hash'

        class K:
            pass
        classImplements(K, R1)

        class KD(K):
            pass
        if point == 'providedBy_descriptor':
            def pb(self):
                fire('providedBy_descriptor')
                return implementedBy(K)
            KD.__providedBy__ = property(pb)
        ob = KD() if point == 'providedBy_descriptor' else K()
        ob_label = {id(ob): 'ob'}

        def mkval(name, is_factory=True):
            def f(*objs):
                calls.append(name)
                if name.startswith('F'):
                    fire('factory')
                return ('made', name, tuple(ob_label.get(id(x), '?') for x in objs))
            f.__name__ = name
            return f
        V = {n: mkval(n) for n in ('F1', 'F2', 'F3', 'S1', 'S2', 'FB')}

        # ---- lookup classes with overridable callbacks ---------------------------------------------------------
        def mk_lookup_class(base):
            class L(base):
                def _uncached_lookup(self, required, provided, name=''):
                    audit['lookup'] = self
                    fire('uncached_before')
                    r = base._uncached_lookup(self, required, provided, name)
                    fire('uncached_after')
                    return r

                def _uncached_lookupAll(self, required, provided):
                    audit['lookup'] = self
                    fire('uncached_before')
                    r = base._uncached_lookupAll(self, required, provided)
                    fire('uncached_after')
                    return r

                def _uncached_subscriptions(self, required, provided):
                    audit['lookup'] = self
                    fire('uncached_before')
                    r = base._uncached_subscriptions(self, required, provided)
                    fire('uncached_after')
                    return r
                if point in ('changed_override', 'changed_before'):
                    def changed(self, originally_changed):
                        fire('changed_before')          # before the refresh: a failure here must leave the refresh still due
                        base.changed(self, originally_changed)
                        fire('changed_override')
            return L
        hooked = point in ('uncached_before', 'uncached_after', 'changed_override', 'changed_before')

        class BaseA(AdapterRegistry):
            pass

        class BaseV(VerifyingAdapterRegistry):
            pass
        unreadable = [False]

        class Unreadable(Exception):
            pass
        if point == 'generation_property' or (action == 'register_unreadable' and flav == 'V'):
            def gget(self):
                if unreadable[0]:
                    raise Unreadable()
                fire('generation_property')
                return self.__dict__.get('_gen', 0)

            def gset(self, v):
                self.__dict__['_gen'] = v
            BaseV._generation = property(gget, gset)
            BaseA._generation = property(gget, gset)

        class SubA(AdapterRegistry):
            LookupClass = mk_lookup_class(AdapterLookup) if hooked else AdapterLookup

        class SubV(VerifyingAdapterRegistry):
            LookupClass = mk_lookup_class(VerifyingAdapterLookup) if hooked else VerifyingAdapterLookup

        def build(plain=False):
            """-> (base, sub).  plain=True: ordinary classes, no hooks (the cold twin for expectations)"""
            if plain:
                B = AdapterRegistry() if flav == 'A' else VerifyingAdapterRegistry()
                S_ = (AdapterRegistry if flav == 'A' else VerifyingAdapterRegistry)((B,))
            else:
                B = BaseA() if flav == 'A' else BaseV()
                S_ = (SubA if flav == 'A' else SubV)((B,))
            return B, S_
        muts = [('reg', 'S', (R0,), P0, '', 'F1'), ('reg', 'S', (R0,), P0, 'n', 'F3'), ('sub', 'S', (R0,), P0, 'S1'),
                ('reg', 'B', (R2,), P0, '', 'FB'), ('sub', 'B', (R0,), P0, 'S2'), ('reg', 'S', (R2,), P0, '', 'F3')]

        def apply(B, S_, m):
            reg = S_ if m[1] == 'S' else B
            k = m[0]
            if k == 'reg':
                reg.register(m[2], m[3], m[4], V[m[5]])
            elif k == 'unreg':
                reg.unregister(m[2], m[3], m[4])
            elif k == 'sub':
                reg.subscribe(m[2], m[3], V[m[4]])
            elif k == 'unsub':
                reg.unsubscribe(m[2], m[3], V[m[4]])
            elif k == 'bases':
                S_.__bases__ = ()
            elif k == 'rebuild':
                S_.rebuild()
            elif k == 'changed':
                S_.changed(S_)
        B, S = build()
        for m in muts:
            apply(B, S, m)
        extra = []          # registry mutations performed by the action (replayed on the twin for the "after" answer)
        finalizer_box = []

        def do_action():
            if action == 'register':
                m = ('reg', 'S', (R1,), P0, NM, 'F2')
            elif action == 'register_other_key':
                m = ('reg', 'S', (R2,), P0, 'zz', 'F2')
            elif action == 'unregister':
                m = ('unreg', 'S', (R0,), P0, NM)
            elif action == 'subscribe':
                m = ('sub', 'S', (R1,), P0, 'S2')
            elif action == 'unsubscribe':
                m = ('unsub', 'S', (R0,), P0, 'S1')
            elif action == 'register_base':
                m = ('reg', 'B', (R1,), P0, NM, 'FB')
            elif action == 'rbases':
                m = ('bases', 'S')
            elif action == 'rebuild':
                m = ('rebuild', 'S')
            elif action == 'changed':
                m = ('changed', 'S')
            elif action == 'irebase':
                R1.__bases__ = (Interface,)
                return
            elif action == 'cdecl':
                classImplementsOnly(K, R2)
                return
            elif action == 'relookup_same':
                ask(S, entry, True)
                return
            elif action == 'relookup_other':
                S.lookup((R2,), P0, '')
                S.subscriptions((R2,), P0)
                S.lookupAll((R2,), P0)
                return
            elif action == 'gc_finalizer':
                class Fin:
                    def __del__(self_):
                        apply(B, S, ('reg', 'S', (R1,), P0, NM, 'F2'))
                        extra.append(('reg', 'S', (R1,), P0, NM, 'F2'))
                a = Fin()
                a.cycle = a
                del a
                gc.collect()
                ctx.fault('gc-inside-callback')
                return
            elif action == 'finalizer_lookup':
                # a registered value whose only remaining owner is the lookup cache: it dies *while* the caches are being
                # dropped, and its finalizer looks things up in the very registry (cache-missing lookups that store)
                class Dying:
                    def __call__(self_, *objs):
                        return None

                    def __del__(self_):
                        S.lookup((R2,), P0, 'fd2')
                        S.lookupAll((R2,), P0)
                        S.subscriptions((R2,), P0)
                        ctx.fault('finalizer-looked-up-while-caches-were-dropped')
                d_ = Dying()
                S.register((R2,), P0, 'fd', d_)
                S.lookup((R2,), P0, 'fd')
                S.lookupAll((R2,), P0)
                del d_
                S.unregister((R2,), P0, 'fd')
                return
            elif action == 'register_unreadable':
                # the mutation itself fails half-way: a registration in the asked registry while the change counter of the
                # registry above it cannot be read (a persistent registry whose state cannot be loaded just then).  The
                # registration is recorded before the lookup object is told, so it counts; the callback swallows the error.
                m = ('reg', 'S', (R1,), P0, NM, 'F2')
                if flav == 'V':
                    unreadable[0] = True
                    try:
                        apply(B, S, m)
                    except Unreadable:
                        ctx.fault('cb-raise-in-change-notification-of-a-mutator')
                    finally:
                        unreadable[0] = False
                    extra.append(m)
                    return
            elif action == 'raise':
                raise Injected('from ' + point)
            else:
                raise ValueError(action)
            apply(B, S, m)
            extra.append(m)

        class Lazy:
            def __init__(self, specs):
                self.specs = specs

            def __iter__(self):
                fire('lazy_required')
                return iter(self.specs)

        def ask(reg, e, inner=False, spec=R1, lazy=False, name=None):
            name = NM if name is None else name
            if e in OBJ_ENTRIES:
                if e == 'queryAdapter':
                    return reg.queryAdapter(ob, P0, name, 'dflt')
                if e == 'adapter_hook':
                    return reg.adapter_hook(P0, ob, name, 'dflt')
                if e == 'queryMultiAdapter':
                    return reg.queryMultiAdapter((ob,), P0, name, 'dflt')
                return reg.subscribers((ob,), P0)
            req = Lazy([spec]) if (lazy and not inner) else [spec]
            if e == 'lookup':
                return reg.lookup(req, P0, name, 'dflt')
            if e == 'lookup1':
                return reg.lookup1(spec, P0, name, 'dflt')
            if e == 'lookupAll':
                return sorted(reg.lookupAll(req, P0), key=lambda kv: kv[0])
            if e == 'names':
                return sorted(reg.names(req, P0))
            return list(reg.subscriptions(req, P0))

        def expected(with_extra):
            """the answer of registries that performed no earlier lookups, in the state before / after the action"""
            b2, s2 = build(plain=True)
            for m in muts + (extra if with_extra else []):
                if m[0] == 'rebuild' or m[0] == 'changed':
                    continue
                apply(b2, s2, m)
            del calls[:]
            ob_spec = implementedBy(K)
            if e_is_obj:
                # object entries resolve providedBy(ob) themselves; the twin is asked with an ordinary instance
                o2 = K()
                ob_label[id(o2)] = 'ob'
                if entry == 'queryAdapter':
                    return s2.queryAdapter(o2, P0, NM, 'dflt')
                if entry == 'adapter_hook':
                    return s2.adapter_hook(P0, o2, NM, 'dflt')
                if entry == 'queryMultiAdapter':
                    return s2.queryMultiAdapter((o2,), P0, NM, 'dflt')
                return s2.subscribers((o2,), P0)
            return ask(s2, entry)
        e_is_obj = entry in OBJ_ENTRIES
        # for object entries the looked-up spec is implementedBy(K) (K implements R1); for spec entries it is R1

        # ---- ownership audit --------------------------------------------------------------------------------
        def leaf_dicts(lk):
            roots = []
            d = vars(lk) if hasattr(lk, '__dict__') else {}
            for nm in ('_cache', '_mcache', '_scache'):
                if isinstance(d.get(nm), dict):
                    roots.append(d[nm])
            if not roots:
                roots = [x for x in gc.get_referents(lk) if type(x) is dict and x is not d]
            out = []
            for r in roots:
                for v in list(r.values()):
                    if type(v) is dict:
                        out.append(v)
                        for v2 in list(v.values()):
                            if type(v2) is dict:
                                out.append(v2)
            return out

        def pin(lk):
            audit['pins'] = leaf_dicts(lk)
            audit['snap'] = [len(x) for x in audit['pins']]

        def judge():
            pins = audit['pins']
            un = []
            for i in range(len(pins)):
                # references we know of: the pins list and getrefcount's own argument
                if sys.getrefcount(pins[i]) <= 2:
                    un.append(i)
            audit['unowned'] = un
            audit['snap'] = [len(x) for x in pins]

        # ---- run ------------------------------------------------------------------------------------------------
        if cache_state == 'warm':
            ask(S, entry)
        elif cache_state == 'sibling':
            if e_is_obj:
                S.lookup((R2,), P0, '')
                S.lookupAll((R2,), P0)
                S.subscriptions((R2,), P0)
            else:
                ask(S, entry, spec=R2)
        if point in ('generation_property', 'changed_override', 'changed_before'):
            # make the verifying lookup notice a changed base generation on its next call
            B.register((R2,), P0, 'bump', V['FB'])
            muts.append(('reg', 'B', (R2,), P0, 'bump', 'FB'))
            if point == 'changed_before':
                # ... and let the base change alter what the multi-result entry points answer for the asked key, so that
                # a refresh that failed and is wrongly taken as done shows as a stale answer on the next call
                for m in (('reg', 'B', (R0,), P0, 'nb', 'FB'), ('sub', 'B', (R1,), P0, 'S1')):
                    apply(B, S, m)
                    muts.append(m)
        a0 = expected(False)
        del calls[:]
        audit['lookup'] = S._v_lookup
        armed[0] = True
        exc = None
        try:
            got = ask(S, entry, lazy=(point == 'lazy_required'), name=(HName(NM) if point in ('name_hash', 'name_len') else None))
        except Injected as e:
            exc = e
            got = None
        except Exception as e:      # noqa
            exc = e
            got = None
        armed[0] = False
        a1 = expected(True)
        ctx.state(flav, entry, point, action, cache_state, fired[0] > 0)
        if fired[0]:
            ctx.fault('cb-' + point)
            ctx.fault('action-' + action)
            ctx.probe('callback-fired')
        else:
            ctx.probe('callback-not-reached')
        where = '%s|%s|%s' % (entry, point, action)
        # 1. ownership
        pins = audit['pins']
        for i in audit['unowned']:
            if len(pins[i]) != audit['snap'][i]:
                ctx.violation('C11', 'ownership', 'C11|ownership|write-to-unowned-cache-dict|%s|%s' % (
                    'C' if is_c else 'py', point if point.startswith('uncached') else point),
                    {'case': case, 'note': 'a cache dictionary that nothing owned when the callback returned was written afterwards'})
        if audit['unowned'] and fired[0]:
            ctx.probe('unowned-dict-at-callback-exit')
        audit['pins'] = []
        # 2. outcome
        if exc is not None:
            if isinstance(exc, Injected):
                if action != 'raise':
                    ctx.violation('C11', 'exception', 'C11|reenter|injected-exception-without-raise-action', {'case': case})
            else:
                ctx.violation('C11', 'exception', 'C11|reenter|exception|%s|%s|%s' % (type(exc).__name__, zope_frame_of(exc), action),
                              {'case': case, 'exc': repr(exc)[:300]})
        elif action == 'raise' and fired[0]:
            ctx.violation('C11', 'exception', 'C11|reenter|injected-exception-swallowed|%s' % point, {'case': case})
        elif fired[0] and not (got == a0 or got == a1):
            ctx.violation('C11', 'atomicity', 'C11|reenter|answer-neither-before-nor-after|%s|%s' % (entry, action),
                          {'case': case, 'got': repr(got), 'before': repr(a0), 'after': repr(a1)})
        elif not fired[0] and got != a1:
            ctx.violation('C11', 'atomicity', 'C11|reenter|wrong-answer-without-interference|%s' % entry, {'case': case, 'got': repr(got), 'want': repr(a1)})
        # 3. nothing computed before the mutation survives
        try:
            again = ask(S, entry)
        except Exception as e:      # noqa
            ctx.violation('C11', 'exception', 'C11|reenter|exception-on-next-lookup|%s|%s' % (type(e).__name__, zope_frame_of(e)), {'case': case})
            again = a1
        if again != a1:
            ctx.violation('C11', 'stale', 'C11|reenter|stale-answer-survives|%s|%s|%s' % (entry, point, action),
                          {'case': case, 'got': repr(again), 'want': repr(a1), 'interrupted_call_returned': repr(got)})
        # 4. every cache dictionary reachable from the lookup object has exactly one owner once the calls are over
        #    (a reference kept by a lookup that left through an error path would show here)
        pins = None          # (the audit's own list of pinned dictionaries would count as an owner,
        exc_name = type(exc).__name__ if exc is not None else None
        exc = None           #  and so would the frames in the traceback of a kept exception: the Python lookup's local `cache`)
        leaves = leaf_dicts(S._v_lookup)
        for i in range(len(leaves)):
            rc = sys.getrefcount(leaves[i])          # its container + `leaves` + getrefcount's argument
            if rc != 3:
                ctx.violation('C11', 'refleak', 'C11|reference-balance|cache-dict|%s|%s' % (entry, 'leak' if rc > 3 else 'underflow'),
                              {'case': case, 'refcount': rc, 'expected': 3})
        ctx.probe('cache-dict-owners-checked', len(leaves))
        del leaves
        ctx.log(ctx.step, flav, entry, point, action, cache_state, fired[0], norm(got) if exc_name is None else 'raise:' + exc_name, norm(again))
        def rearm():
            armed[0] = True
        return S, B, (R0, R1, R2, P0, ob, K, rearm)

    def refbalance(case):
        """reference counts of the operands must not drift over repetitions of a warm call and of a failing call"""
        S, B, operands = run_case(dict(case, action='relookup_other'))
        R0, R1, R2, P0, ob, K, _rearm = operands
        entry = case['entry']

        def call():
            if entry == 'queryAdapter':
                return S.queryAdapter(ob, P0, '', 'dflt')
            if entry == 'adapter_hook':
                return S.adapter_hook(P0, ob, '', 'dflt')
            if entry == 'queryMultiAdapter':
                return S.queryMultiAdapter((ob,), P0, '', 'dflt')
            if entry == 'subscribers':
                return S.subscribers((ob,), P0)
            if entry == 'lookup':
                return S.lookup((R1,), P0, '', 'dflt')
            if entry == 'lookup1':
                return S.lookup1(R1, P0, '', 'dflt')
            if entry == 'lookupAll':
                return S.lookupAll((R1,), P0)
            if entry == 'names':
                return S.names((R1,), P0)
            return S.subscriptions((R1,), P0)
        watched = [R1, P0, ob, S, 'dflt', None, ()]
        call()
        r = call()
        before = [sys.getrefcount(x) for x in watched]
        rc_res = sys.getrefcount(r) if not isinstance(r, (str, type(None))) else None
        for _ in range(40):
            call()
        for bad in (5, None):
            for _ in range(20):
                try:
                    if entry in ('lookup', 'lookup1', 'queryAdapter', 'adapter_hook', 'queryMultiAdapter'):
                        if entry == 'lookup':
                            S.lookup((R1,), P0, bad if bad is not None else b'x')
                        elif entry == 'lookup1':
                            S.lookup1(R1, P0, bad if bad is not None else b'x')
                        elif entry == 'queryAdapter':
                            S.queryAdapter(ob, P0, bad if bad is not None else b'x')
                        elif entry == 'adapter_hook':
                            S.adapter_hook(P0, ob, bad if bad is not None else b'x')
                        else:
                            S.queryMultiAdapter((ob,), P0, bad if bad is not None else b'x')
                except ValueError:
                    pass
        # ... and calls that fail while probing the caches: an unhashable `provided` (TypeError in both implementations)
        for _ in range(20):
            try:
                if entry == 'lookup':
                    S.lookup((R1,), [], '')
                elif entry == 'lookup1':
                    S.lookup1(R1, [], '')
                elif entry == 'lookupAll':
                    S.lookupAll((R1,), [])
                elif entry == 'subscriptions':
                    S.subscriptions((R1,), [])
                elif entry == 'queryAdapter':
                    S.queryAdapter(ob, [], '')
                elif entry == 'adapter_hook':
                    S.adapter_hook([], ob, '')
            except TypeError:
                pass
        after = [sys.getrefcount(x) for x in watched]
        ctx.probe('refbalance-checked')
        for nm, b_, a_ in zip(('required', 'provided', 'object', 'registry', 'default', 'None', 'empty-tuple'), before, after):
            if nm in ('None', 'empty-tuple', 'default'):
                continue        # immortal / interned in 3.12
            if a_ != b_:
                ctx.violation('C11', 'refleak', 'C11|reference-balance|%s|%s|%s' % (entry, nm, 'leak' if a_ > b_ else 'underflow'),
                              {'case': case, 'before': b_, 'after': a_})
        if rc_res is not None:
            r2 = call()
            if r2 is r and sys.getrefcount(r) != rc_res + 1:
                ctx.violation('C11', 'refleak', 'C11|reference-balance|%s|cached-result|%s' % (
                    entry, 'underflow' if sys.getrefcount(r) < rc_res + 1 else 'leak'),
                    {'case': case, 'before': rc_res, 'after': sys.getrefcount(r)})

    def refbalance_dying_value(case):
        """a registered value whose last owner is the lookup cache dies while a mutator's changed() drops the caches, and
        its finalizer looks things up in the same registry (storing into whatever cache the lookup object shows at that
        moment): over 25 rounds nothing may stay referenced"""
        S, B, operands = run_case(dict(case, action='relookup_other'))
        R0, R1, R2, P0, ob, K, _rearm = operands
        target = V_keep = (lambda *objs: None)
        S.register((R2,), P0, 'tgt', target)

        class Dying:
            ran = 0

            def __call__(self_, *objs):
                return None

            def __del__(self_):
                Dying.ran += 1
                S.lookup((R2,), P0, 'tgt')
                S.lookupAll((R2,), P0)
                S.subscriptions((R2,), P0)

        def one_round():
            d_ = Dying()
            S.register((R2,), P0, 'dy', d_)
            S.lookup((R2,), P0, 'dy')
            S.lookupAll((R2,), P0)
            del d_
            S.register((R2,), P0, 'dy', target)        # the registry lets go; changed() drops the caches -> __del__ -> lookups
            S.unregister((R2,), P0, 'dy')
        one_round()
        one_round()
        watched = [R2, P0, target, S]
        before = [sys.getrefcount(x) for x in watched]
        for _ in range(25):
            one_round()
        after = [sys.getrefcount(x) for x in watched]
        ctx.probe('refbalance-dying-value-checked')
        if Dying.ran < 27:
            ctx.probe('dying-value-finalizer-did-not-run')
        for nm, b_, a_ in zip(('required', 'provided', 'value', 'registry'), before, after):
            if a_ != b_:
                ctx.violation('C11', 'refleak', 'C11|reference-balance|value-dying-while-caches-are-dropped|%s|%s' % (
                    nm, 'leak' if a_ > b_ else 'underflow'), {'case': case, 'before': b_, 'after': a_})

    def refbalance_failing_callback(case):
        """the same for lookups that leave through the error path: the overridden uncached method raises, over and over,
        each time from cold caches; nothing the call took a reference to may stay referenced"""
        for pt in ('uncached_before', 'uncached_after'):
            S, B, operands = run_case(dict(case, point=pt, action='raise', cache='cold'))
            R0, R1, R2, P0, ob, K, rearm = operands
            entry = case['entry']

            def call():
                if entry == 'queryAdapter':
                    return S.queryAdapter(ob, P0, '', 'dflt')
                if entry == 'adapter_hook':
                    return S.adapter_hook(P0, ob, '', 'dflt')
                if entry == 'queryMultiAdapter':
                    return S.queryMultiAdapter((ob,), P0, '', 'dflt')
                if entry == 'subscribers':
                    return S.subscribers((ob,), P0)
                if entry == 'lookup':
                    return S.lookup((R1,), P0, '', 'dflt')
                if entry == 'lookup1':
                    return S.lookup1(R1, P0, '', 'dflt')
                if entry == 'lookupAll':
                    return S.lookupAll((R1,), P0)
                if entry == 'names':
                    return S.names((R1,), P0)
                return S.subscriptions((R1,), P0)

            def failing_round():
                S.changed(S)             # cold caches again
                rearm()
                try:
                    call()
                except Injected:
                    return True
                return False
            watched = [R1, P0, ob, S]
            raised = failing_round() and failing_round()
            if not raised:
                continue                # this entry point does not reach that callback
            before = [sys.getrefcount(x) for x in watched]
            for _ in range(25):
                failing_round()
            after = [sys.getrefcount(x) for x in watched]
            ctx.probe('refbalance-error-path-checked')
            for nm, b_, a_ in zip(('required', 'provided', 'object', 'registry'), before, after):
                if a_ != b_:
                    ctx.violation('C11', 'refleak', 'C11|reference-balance|error-path|%s|%s|%s' % (entry, nm, 'leak' if a_ > b_ else 'underflow'),
                                  {'case': case, 'point': pt, 'before': b_, 'after': a_})

    seen_rb = set()
    for step, case in enumerate(program['ops']):
        ctx.step = step
        ctx.nops += 1
        run_case(case)
        key = (case['flav'], case['entry'])
        if key not in seen_rb:
            seen_rb.add(key)
            refbalance(case)
            refbalance_failing_callback(case)
            if case['entry'] == 'lookup':
                refbalance_dying_value(case)


# --------------------------------------------------------------------------
# Part B: threads under a baton scheduler
# --------------------------------------------------------------------------

class Scheduler:
    """Real threads, one runnable at a time.  Line events inside traced files are the pre-emption points."""

    def __init__(self, rng, p_switch, trace_dirs, step_cap=4000, opcodes=False, policy='uniform', points=()):
        self.rng = rng
        self.policy = policy
        self.points = {}                  # co_name -> set of k: the k-th event inside that function is a change point
        for name, k in points:
            self.points.setdefault(name, set()).add(k)
        self.site_count = {}
        self.prio = []
        self.waiting = {}                 # thread -> the simulated lock it could not get
        self.bursts = 0
        self.opcodes = opcodes            # pre-empt between bytecodes instead of between lines (splits `x += 1`, `a[k] = f()` ...)
        self.p = p_switch
        self.dirs = trace_dirs
        self.threads = []
        self.go = []
        self.done = []
        self.back = threading.Semaphore(0)
        self.current = None
        self.steps = 0
        self.cap = step_cap
        self.sig = []
        self.seq = 0
        self.errors = []
        self.last_site = None
        self.running = False

    def add(self, fn):
        i = len(self.threads)
        self.go.append(threading.Semaphore(0))
        self.done.append(False)
        self.prio.append(self.rng.random() if self.policy == 'burst' else 0.0)

        def runner():
            self.go[i].acquire()
            sys.settrace(self._global_trace)
            try:
                fn(i)
            except BaseException:     # noqa
                self.errors.append((i, traceback.format_exc()[-1500:]))
            finally:
                sys.settrace(None)
                self.done[i] = True
                self.back.release()
        t = threading.Thread(target=runner, daemon=True)
        self.threads.append(t)
        return i

    def _global_trace(self, frame, event, arg):
        fn = frame.f_code.co_filename
        for d in self.dirs:
            if fn.startswith(d):
                return self._local_trace
        return None

    def _local_trace(self, frame, event, arg):
        if self.opcodes and not frame.f_trace_opcodes:
            frame.f_trace_opcodes = True
        if event == ('opcode' if self.opcodes else 'line'):
            self.steps += 1
            if self.policy == 'burst':
                name = frame.f_code.co_name
                ks = self.points.get(name)
                if ks is not None:
                    c = self.site_count[name] = self.site_count.get(name, 0) + 1
                    if c in ks and self.steps < self.cap:
                        self.prio[self.current] = min(self.prio) - 1.0
                        self.bursts += 1
                        self.last_site = (name, frame.f_lineno)
                        self.yield_()
            elif self.steps < self.cap and self.rng.random() < self.p:
                self.last_site = (frame.f_code.co_name, frame.f_lineno)
                self.yield_()
        return self._local_trace

    def yield_(self):
        me = self.current
        self.back.release()
        self.go[me].acquire()

    def run(self):
        self.running = True
        for t in self.threads:
            t.start()
        n = len(self.threads)
        while True:
            alive = [i for i in range(n) if not self.done[i]]
            if not alive:
                break
            if self.policy == 'burst':
                # (a thread that waits for a lock somebody else still holds is not runnable)
                cands = [j for j in alive if not (j in self.waiting and self.waiting[j].owner not in (None, j))] or alive
                i = max(cands, key=lambda j: self.prio[j])
            else:
                i = alive[self.rng.randrange(len(alive))]
            if self.current is not None and i != self.current and self.last_site is not None:
                self.sig.append((self.current, self.last_site[0], i))
            self.current = i
            self.go[i].release()
            if not self.back.acquire(timeout=20):
                raise RuntimeError('scheduler: thread %d did not yield within 20 s' % i)
        for t in self.threads:
            t.join(timeout=5)
        self.running = False


class SimLockModule:
    """Stands in for the `threading` module inside zope.interface.adapter: locks the library takes are owned by
    the simulator (a real lock held by a parked thread would block the thread the scheduler just released)."""

    def __init__(self):
        self.sched = None
        self.contended = 0

    def _me(self):
        return self.sched.current if self.sched is not None and self.sched.running else -1

    def RLock(self):
        mod = self

        class SimRLock:
            def __init__(self):
                self.owner = None
                self.count = 0

            def acquire(self, blocking=True, timeout=-1):
                me = mod._me()
                while self.owner is not None and self.owner != me:
                    mod.contended += 1
                    if mod.sched is None or not mod.sched.running:
                        raise RuntimeError('simulated lock held by a parked thread outside a scheduled run')
                    mod.sched.waiting[me] = self
                    mod.sched.yield_()          # somebody else holds it: give the baton back and retry later
                if mod.sched is not None:
                    mod.sched.waiting.pop(me, None)
                self.owner = me
                self.count += 1
                return True

            def release(self):
                self.count -= 1
                if self.count == 0:
                    self.owner = None
            __enter__ = acquire

            def __exit__(self, *a):
                self.release()
        return SimRLock()
    Lock = RLock

    def __getattr__(self, name):
        return getattr(threading, name)


def execute_threads(program, ctx, mode):
    import os
    import random
    import zope.interface
    import zope.interface.adapter as _za
    simlocks = SimLockModule()
    if hasattr(_za, 'threading'):
        _za.threading = simlocks
    import zope.interface.interface as _zi
    if hasattr(_zi, '_dependents_lock'):
        # a module-level lock created at import time: replaced by a simulator-owned one (a real lock held by a parked
        # thread would block the thread the scheduler has just released)
        _zi._dependents_lock = simlocks.Lock()
    from zope.interface import Interface, implementedBy, classImplements, classImplementsOnly
    from zope.interface.interface import InterfaceClass
    from zope.interface.adapter import AdapterRegistry, VerifyingAdapterRegistry
    W = program['world']
    R0 = InterfaceClass('TR0', (Interface,), {}, __module__='zisim.t')
    R1 = InterfaceClass('TR1', (R0,), {}, __module__='zisim.t')
    R2 = InterfaceClass('TR2', (Interface,), {}, __module__='zisim.t')
    P0 = InterfaceClass('TP0', (Interface,), {}, __module__='zisim.t')
    P1 = InterfaceClass('TP1', (P0,), {}, __module__='zisim.t')      # first registered by the mutator, if at all
    P2 = InterfaceClass('TP2', (P0,), {}, __module__='zisim.t')      # a third: the list of extending interfaces gets long
    PS = [P0, P1, P2]                                                # enough for an in-place edit to make a reader skip one
    RS = [R0, R1, R2]

    class K:
        pass
    classImplements(K, R1)
    ob = K()
    vals = []
    for i in range(4):
        def f(*objs, i=i):
            return ('made', i)
        f.__name__ = 'TV%d' % i
        vals.append(f)
    flav = W['flav']

    def mk():
        if flav == 'A':
            B = AdapterRegistry()
            S = AdapterRegistry((B,))
        elif flav == 'V':
            B = VerifyingAdapterRegistry()
            S = VerifyingAdapterRegistry((B,))
        else:
            B = AdapterRegistry()
            S = VerifyingAdapterRegistry((B,))
        return B, S
    B, S = mk()
    spec_state = {'irebase': False, 'cdecl': False}

    def apply(Bx, Sx, m, real):
        k = m['m']
        req = tuple(RS[x] for x in m['req'])
        nm = ['', 'a'][m['n']]
        v = vals[m['v']]
        P = PS[m.get('p', 0)]
        if k == 'reg':
            Sx.register(req, P, nm, v)
        elif k == 'unreg':
            Sx.unregister(req, P, nm)
        elif k == 'sub':
            Sx.subscribe(req, P, v)
        elif k == 'unsub':
            Sx.unsubscribe(req, P, v)
        elif k == 'regbase':
            Bx.register(req, P, nm, v)
        elif k == 'rbases':
            Sx.__bases__ = () if Sx.__bases__ else (Bx,)
        elif k == 'gc':
            if real:
                gc.collect()
                ctx.fault('gc-in-mutator-thread')
        elif k == 'rebuild':
            # content stays the same, but the registry is emptied and refilled step by step: a lookup that overlaps it may see
            # an intermediate state (not judged); what must hold is that nothing it computed meanwhile survives
            Sx.rebuild()
        elif k == 'irebase' and real:
            R1.__bases__ = (Interface,) if R1.__bases__ == (R0,) else (R0,)
        elif k == 'cdecl' and real:
            if spec_state['cdecl']:
                classImplements(K, R1)
            else:
                classImplementsOnly(K, R2)
            spec_state['cdecl'] = not spec_state['cdecl']

    def ask(Sx, key, raw=None):
        e = ENTRIES[key['e']]
        req = [RS[x] for x in key['req']]
        nm = ['', 'a'][key['n']]
        P0 = PS[key.get('p', 0)]
        if e in OBJ_ENTRIES:
            objs = [ob] * len(req)
            if e == 'subscribers':
                return Sx.subscribers(objs, P0)
            if len(objs) == 1 and e == 'queryAdapter':
                return Sx.queryAdapter(ob, P0, nm, 'dflt')
            if len(objs) == 1 and e == 'adapter_hook':
                return Sx.adapter_hook(P0, ob, nm, 'dflt')
            return Sx.queryMultiAdapter(objs, P0, nm, 'dflt')
        if e == 'lookup1' and len(req) == 1:
            return Sx.lookup1(req[0], P0, nm)
        if e in ('lookup', 'lookup1'):
            return Sx.lookup(req, P0, nm)
        if e == 'lookupAll':
            r = Sx.lookupAll(req, P0)
            if raw is not None:
                raw.append((key, r))
            return sorted(r, key=lambda kv: kv[0])
        if e == 'names':
            return sorted(Sx.names(req, P0))
        r = Sx.subscriptions(req, P0)
        if raw is not None:
            raw.append((key, r))
        return list(r)
    raw_results = []
    history = []       # registry mutations applied so far (completed), for twins
    for m in W['pre']:
        apply(B, S, m, True)
        history.append(m)
    if W.get('warm'):
        for key in W['keys']:
            ask(S, key)
    if W.get('late_base_change'):
        m = {'m': 'regbase', 'req': [0], 'n': 0, 'v': 3}
        apply(B, S, m, True)          # the verifying flavour will run changed() from inside the lookup threads
        history.append(m)
        ctx.probe('base-changed-before-threads')

    def twin_answer(muts, key):
        b2, s2 = mk()
        for m in muts:
            apply(b2, s2, m, False)
        return ask(s2, key)
    events = []
    lock_free_seq = [0]

    def stamp():
        lock_free_seq[0] += 1
        return lock_free_seq[0]
    # spec-level mutations change global state the twins share; when the mutator does those, only "no exception"
    # and the final re-ask are demanded of overlapping lookups
    mut_records = []     # (inv, ret, m, exc)
    look_records = []    # (tid, inv, ret, key, result, exc)

    def lookup_thread(ops):
        def run(tid):
            for op in ops:
                key = W['keys'][op['key'] % len(W['keys'])]
                inv = stamp()
                try:
                    r = ask(S, key, raw_results)
                    exc = None
                except Exception as e:     # noqa
                    r, exc = None, e
                look_records.append((tid, inv, stamp(), key, r, exc))
        return run

    def mutator_thread(ops):
        def run(tid):
            for m in ops:
                inv = stamp()
                if mode.get('asan'):
                    saturate()
                try:
                    apply(B, S, m, True)
                    exc = None
                except Exception as e:     # noqa
                    exc = e
                if mode.get('asan'):
                    saturate(flush=True)
                mut_records.append((inv, stamp(), m, exc))
        return run
    zdir = os.path.dirname(os.path.abspath(zope.interface.__file__))
    opcodes = bool(W.get('opcodes'))
    sched = Scheduler(random.Random(W['sched_seed']), W['p_switch'] / (4.0 if opcodes else 1.0), [zdir],
                      step_cap=16000 if opcodes else 4000, opcodes=opcodes, policy=W.get('policy', 'uniform'), points=W.get('points') or ())
    if opcodes:
        ctx.probe('opcode-granularity-run')
    simlocks.sched = sched
    kinds = []
    for t in program['ops']:
        kinds.append(t['kind'])
        sched.add(lookup_thread(t['ops']) if t['kind'] == 'lookup' else mutator_thread(t['ops']))
    old_switch = sys.getswitchinterval()
    sched.run()
    ctx.nops += sum(len(t['ops']) for t in program['ops'])
    ctx.probe('scheduler-steps', sched.steps)
    ctx.probe('context-switches', len(sched.sig))
    ctx.probe('lock-contention', simlocks.contended)
    if W.get('policy') == 'burst':
        ctx.probe('burst-policy-run')
        ctx.probe('burst-change-points-hit', sched.bursts)
    for s in sched.sig[:200]:
        ctx.sig(kinds[s[0]], s[1], kinds[s[2]])
    ctx.fault('preempt', len(sched.sig))
    if sched.errors:
        raise RuntimeError('thread body failed: %r' % (sched.errors[:1],))
    lookup_only = not any(k == 'mutator' for k in kinds)
    spec_muts = any(m['m'] in ('irebase', 'cdecl', 'rebuild') for (_i, _r, m, _e) in mut_records)
    cfg = 'lookup-only' if lookup_only else 'with-mutator'
    # 1. exceptions seen by lookup threads
    for tid, inv, ret, key, r, exc in look_records:
        ctx.log('lookup', tid, ENTRIES[key['e']], key['req'], key['n'], norm(r) if exc is None else 'raise:' + type(exc).__name__)
        if exc is not None:
            ctx.violation('C11', 'thread-exception', 'C11|threads|%s|lookup-raised|%s|%s' % (cfg, type(exc).__name__, zope_frame_of(exc)),
                          {'key': key, 'exc': repr(exc)[:300], 'flavour': flav})
    for inv, ret, m, exc in mut_records:
        ctx.log('mutation', m['m'], 'raise:' + type(exc).__name__ if exc else 'ok')
        if exc is not None:
            ctx.probe('mutator-saw-exception')
    # 2. atomicity: the answer must be the model's in one of the states the lookup's interval overlaps
    done_muts = [(inv, ret, m) for inv, ret, m, exc in mut_records]
    if not spec_muts:
        for tid, inv, ret, key, r, exc in look_records:
            if exc is not None:
                continue
            a = sum(1 for (mi, mr, m) in done_muts if mr < inv)
            b = sum(1 for (mi, mr, m) in done_muts if mi < ret)
            allowed = []
            for j in range(a, b + 1):
                allowed.append(twin_answer(history + [m for (_i, _r, m) in done_muts[:j]], key))
            ctx.state(cfg, flav, ENTRIES[key['e']], b - a)
            if b > a:
                ctx.probe('lookup-overlapped-mutation')
            if not any(r == x for x in allowed) and b - a >= 2:
                # several mutations overlap this one lookup.  The statement speaks of *a* mutation ("correct either before or
                # after the mutation"); applied to each overlapped mutation on its own that means: every one of them is
                # either seen or not seen by the lookup -- not necessarily a prefix of them (a lookup reads the registry
                # order first and the registries' contents later, without locks).  Any subset, in the original order, is accepted.
                base_hist = history + [m for (_i, _r, m) in done_muts[:a]]
                over = [m for (_i, _r, m) in done_muts[a:b]]
                for mask in range(1 << len(over)):
                    sub = [m for j, m in enumerate(over) if mask >> j & 1]
                    x = twin_answer(base_hist + sub, key)
                    if r == x:
                        allowed.append(x)
                        ctx.probe('answer-explained-by-a-subset-of-the-overlapped-mutations')
                        break
            if not any(r == x for x in allowed):
                ctx.violation('C11', 'thread-atomicity', 'C11|threads|%s|answer-not-from-any-overlapped-state|%s' % (cfg, ENTRIES[key['e']]),
                              {'key': key, 'got': repr(r), 'allowed': [repr(x) for x in allowed], 'flavour': flav})
    # 2b. reference balance of the cached multi-results handed to several threads
    seen = set()
    for key, r in list(raw_results):
        if id(r) in seen or (isinstance(r, tuple) and not r):
            continue            # the empty tuple is an immortal singleton
        seen.add(id(r))
        holders = sum(1 for (_k, x) in raw_results if x is r)
        req = [RS[x] for x in key['req']]
        cur = S.lookupAll(req, PS[key.get('p', 0)]) if ENTRIES[key['e']] == 'lookupAll' else S.subscriptions(req, PS[key.get('p', 0)])
        cached = 1 if cur is r else 0
        # holders (tuples inside raw_results) + the cache + `r` + `cur` (if same) + getrefcount's argument
        want = holders + cached + 1 + cached + 1
        got = sys.getrefcount(r)
        if got != want:
            ctx.violation('C11', 'thread-refcount', 'C11|threads|reference-balance|%s|%s' % (ENTRIES[key['e']], 'underflow' if got < want else 'leak'),
                          {'key': key, 'got': got, 'want': want})
        del cur
    # 3. quiescence: every key again, must be the final state's answer
    final = history + [m for (_i, _r, m) in done_muts]
    for key in W['keys']:
        try:
            r = ask(S, key)
        except Exception as e:      # noqa
            ctx.violation('C11', 'thread-exception', 'C11|threads|%s|final-lookup-raised|%s|%s' % (cfg, type(e).__name__, zope_frame_of(e)), {'key': key})
            continue
        want = twin_answer(final, key)
        if r != want and not any(exc for (_i, _r, _m, exc) in mut_records):
            ctx.violation('C11', 'thread-stale', 'C11|threads|%s|stale-answer-after-quiescence|%s' % (cfg, ENTRIES[key['e']]),
                          {'key': key, 'got': repr(r), 'want': repr(want), 'flavour': flav})
        elif r != want:
            ctx.probe('stale-after-mutator-exception')


def execute(program, ctx, mode):
    if program.get('part') == 'threads':
        return execute_threads(program, ctx, mode)
    return execute_reenter(program, ctx, mode)


def simplifiers():
    def drop_thread_ops(prog):
        if prog.get('part') != 'threads':
            return
        for ti, t in enumerate(prog['ops']):
            for j in range(len(t['ops'])):
                p = dict(prog)
                ops = [dict(x) for x in prog['ops']]
                ops[ti]['ops'] = t['ops'][:j] + t['ops'][j + 1:]
                p['ops'] = ops
                yield p

    def drop_pre(prog):
        if prog.get('part') != 'threads':
            return
        pre = prog['world']['pre']
        for j in range(len(pre)):
            p = dict(prog)
            p['world'] = dict(prog['world'], pre=pre[:j] + pre[j + 1:])
            yield p
    return [drop_thread_ops, drop_pre]


def describe(program):
    if program.get('part') == 'threads':
        return {'world': program['world'], 'threads': program['ops']}
    return {'ops': program['ops'][:8]}


def run(req, item):
    return standard_run(generate, execute, req, item, describe)
