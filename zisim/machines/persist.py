"""Machine `persist` -- ordering across processes (C12) and pickling by reference (C13).

mode['what'] == 'order'  (C12)
    A pool of interfaces and class specifications whose (name, module) pairs come
    from an adversarial vocabulary (empty, equal, prefix-related, non-ASCII, equal
    name / different module and vice versa), plus None and foreign objects.  All
    pairs and triples are checked against the key model, and the sorted order and
    the full comparison matrix go into the event log, which the engine replays
    under other PYTHONHASHSEED values and the other implementation ('diff' part).

mode['what'] == 'pickle' (C13)
    The world's interfaces and classes live in a generated importable module that
    any process can regenerate from the program.  History: declaration calls of
    every shape, then `dump` of interfaces, class specifications, class / instance
    provides-declarations, declared objects and `_empty` with every protocol, then
    `load` in the same process (optionally after a collection), or `restart`: a
    fresh interpreter (other implementation / hash seed) regenerates the module and
    loads the pickles (only durable state survives).
"""
import base64
import gc
import json
import os
import pickle
import pickletools
import subprocess
import sys
import types

from ..prng import Streams, h64
from .base import standard_run, Stop

MACHINE = 'persist'
NAMES = ['', 'I', 'I0', 'I00', 'a', 'A', 'Ié', 'é', 'Z', 'I.0', 'II', 'zope',
         # wide strings whose first differing characters lie in different 256-code-point blocks (byte-wise and code-point order differ)
         'I\u5546\u54c1', 'I\u4ea7\u54c1', 'I\U0001d4b3', 'I\uffee',
         # a dot inside the name: ('n.I', 'm') and ('I', 'm.n') are different keys with the same dotted path
         'n.I', 'n.I0']
MODS = ['', 'm', 'm.n', 'M', 'mé', 'zope.interface.declarations', 'I', 'm.', 'm\u5546', 'm\u4ea7']
WMOD = 'zisim_pworld'


def generate(seed, mode):
    S = Streams(seed)
    w = S('world')
    o = S('ops')
    if mode.get('what') == 'order':
        n = w.randint(4, 9)
        pool = []
        # a "name" that contains a blank and comes without a docstring is taken to be the docstring: such interfaces
        # have __name__ None and are ordered by module alone; they live in worlds of their own (None does not order with str)
        nameless = w.random() < 0.1
        for i in range(n if not nameless else 0):
            if pool and w.random() < 0.25:
                src = w.choice(pool)
                k = w.random()
                if k < 0.4:
                    item = dict(src)                               # equal key, distinct object
                elif k < 0.7:
                    item = dict(src, mod=w.choice(MODS))          # equal name, other module
                else:
                    item = dict(src, name=w.choice(NAMES))        # other name, equal module
                item['kind'] = w.choice(['I', 'I', 'K'])
            else:
                item = {'kind': w.choice(['I', 'I', 'I', 'K']), 'name': w.choice(NAMES), 'mod': w.choice(MODS)}
            pool.append(item)
        for i in range(n if nameless else 0):
            pool.append({'kind': 'I', 'name': w.choice(['I x', 'I y', ' ', 'a b']), 'mod': w.choice(MODS[:4])})
        perms = [o.getrandbits(30) for _ in range(3)]
        return {'machine': MACHINE, 'seed': seed, 'world': {'pool': pool}, 'ops': [{'op': 'laws', 'perms': perms}]}
    # pickle
    nI = w.randint(2, 5)
    ibases = []
    for i in range(nI):
        k = min(i, w.choice([0, 1, 1, 2]))
        ibases.append(sorted(w.sample(range(i), k)))
    ncls = w.randint(1, 4)
    classes = []
    for c in range(ncls):
        cb = w.sample(range(c), min(c, w.choice([0, 1, 1, 2])))
        decl = w.choice(['none', 'impl', 'impl', 'only', 'first', 'impl+provider', 'provider'])
        classes.append({'bases': cb, 'decl': decl, 'xs': w.sample(range(nI), w.randint(0 if decl == 'only' else 1, min(2, nI))),
                        'pxs': w.sample(range(nI), w.randint(1, min(2, nI))),
                        # a class that is false in a boolean context (its metaclass defines __bool__ / __len__): legal, if unusual
                        'falsy': w.random() < 0.15,
                        # a metaclass that itself implements interfaces (what the class provides through its type)
                        'dmeta': w.random() < 0.25,
                        # fault `cb-reenter`: a metaclass whose __setattr__ pickles the specification at the moment the library
                        # attaches it to the class (an attribute-change listener, a persistence hook)
                        'hmeta': h64(seed, 'hook-metaclass', c) % 5 == 0})
    restart = bool(mode.get('restart'))
    nops = w.randint(2, 10)
    ops = []
    for _ in range(nops):
        k = o.getrandbits(30)
        r = o.random()
        if r < 0.2:
            ops.append({'op': 'newob', 'c': o.randrange(ncls), 'k': k})
        elif r < 0.45:
            ops.append({'op': 'dprov', 'o': o.randrange(8), 'xs': o.sample(range(nI), o.randint(0, min(3, nI))), 'k': k})
        elif r < 0.6:
            ops.append({'op': 'aprov', 'o': o.randrange(8), 'xs': o.sample(range(nI), o.randint(1, min(2, nI))), 'k': k})
        elif r < 0.68:
            ops.append({'op': 'nprov', 'o': o.randrange(8), 'x': o.randrange(nI), 'k': k})
        elif r < 0.8 and not restart:
            ops.append({'op': 'cdecl', 'c': o.randrange(ncls), 'xs': o.sample(range(nI), o.randint(0, min(2, nI))),
                        'how': o.choice(['impl', 'only', 'first', 'cprov', 'calso', 'cno', 'only_bad', 'metaonly', 'metaimpl']), 'k': k})
        elif r < 0.86 and not restart:
            ops.append({'op': 'gc', 'k': k})
        elif not restart and h64(seed, 'later', len(ops)) % 4 == 0:
            # durability across history: dump now, carry on with declarations, load later
            ops.append({'op': 'dump', 'proto': o.randrange(6), 'k': k})
        elif not restart and h64(seed, 'later', len(ops)) % 4 == 1:
            ops.append({'op': 'loadlater', 'k': k})
        else:
            ops.append({'op': 'roundtrip', 'proto': o.randrange(6), 'gc': o.random() < 0.3, 'k': k})
    dm = [c for c, cd in enumerate(classes) if cd.get('dmeta') and not cd.get('falsy')]
    if not restart and dm and h64(seed, 'meta-pattern') % 3 == 0:
        # fault placement: a class declares an interface directly, *then* its metaclass comes to implement the same interface,
        # the declaration is dumped, the metaclass is narrowed again, and only then the dump is loaded
        c = dm[h64(seed, 'meta-class') % len(dm)]
        x = [h64(seed, 'meta-iface') % nI]
        for how, xs_ in (('cprov', x), ('metaimpl', x), (None, None), ('metaonly', []), ('load', None)):
            k = o.getrandbits(30)
            if how is None:
                ops.append({'op': 'dump', 'proto': o.randrange(6), 'k': k})
            elif how == 'load':
                ops.append({'op': 'loadlater', 'k': k})
            else:
                ops.append({'op': 'cdecl', 'c': c, 'xs': xs_, 'how': how, 'k': k})
    if not restart:
        ops.append({'op': 'loadlater', 'k': o.getrandbits(30)})
    ops.append({'op': 'roundtrip', 'proto': o.randrange(6), 'gc': False, 'k': o.getrandbits(30)})
    if restart:
        ops.append({'op': 'restart', 'proto': o.randrange(6), 'impl': o.choice(['c', 'py']), 'hashseed': o.choice(['0', '1', '12345']),
                    'k': o.getrandbits(30)})
    return {'machine': MACHINE, 'seed': seed, 'world': {'ibases': ibases, 'classes': classes}, 'ops': ops}


# --------------------------------------------------------------------------
# the importable world module (regenerated from the program in any process)
# --------------------------------------------------------------------------

def build_world(W):
    from zope.interface import Interface, Attribute, implementer, implementer_only, classImplementsFirst, provider
    from zope.interface.interface import InterfaceClass
    mod = types.ModuleType(WMOD)
    sys.modules[WMOD] = mod
    ifs = []
    for i, bs in enumerate(W['ibases']):
        name = 'PI%d' % i
        I = InterfaceClass(name, tuple(ifs[b] for b in bs) or (Interface,),
                           {'attr%d' % i: Attribute('DEFINITION-MARKER-%d' % i)}, __doc__='DEFINITION-MARKER-doc-%d' % i, __module__=WMOD)
        setattr(mod, name, I)
        ifs.append(I)
    classes = []

    class FalsyMeta(type):
        def __bool__(cls):
            return False

        def __len__(cls):
            return 0
    FalsyMeta.__module__ = WMOD
    FalsyMeta.__qualname__ = 'FalsyMeta'
    mod.FalsyMeta = FalsyMeta
    class DeclMeta(FalsyMeta):
        def __bool__(cls):
            return True

        def __len__(cls):
            return 1
    DeclMeta.__module__ = WMOD
    DeclMeta.__qualname__ = 'DeclMeta'
    mod.DeclMeta = DeclMeta
    if ifs:
        from zope.interface import classImplements as _ci
        _ci(DeclMeta, ifs[0])
    mod._hook_blobs = []

    class HookMeta(type):
        def __setattr__(cls, name, value):
            type.__setattr__(cls, name, value)
            if name == '__implemented__':
                try:
                    mod._hook_blobs.append((cls.__name__, pickle.dumps(value, 2)))
                except Exception as e:      # noqa
                    mod._hook_blobs.append((cls.__name__, 'raise:' + type(e).__name__))
    HookMeta.__module__ = WMOD
    HookMeta.__qualname__ = 'HookMeta'
    mod.HookMeta = HookMeta
    for c, cd in enumerate(W['classes']):
        name = 'PK%d' % c
        bl = [classes[b] for b in cd['bases']]
        cls = None
        meta = FalsyMeta if cd.get('falsy') else (DeclMeta if cd.get('dmeta') else (HookMeta if cd.get('hmeta') else type))
        for attempt in (bl, bl[:1], []):
            try:
                cls = meta(name, tuple(attempt) or (object,), {'__module__': WMOD, '__qualname__': name})
                break
            except TypeError:
                continue
        setattr(mod, name, cls)          # importable from here on (a pickle taken by a hook during the declarations refers to it)
        xs = [ifs[x] for x in cd['xs']]
        pxs = [ifs[x] for x in cd['pxs']]
        d = cd['decl']
        if d == 'impl' or d == 'impl+provider':
            implementer(*xs)(cls)
        elif d == 'only':
            implementer_only(*xs)(cls)
        elif d == 'first':
            if xs:
                classImplementsFirst(cls, xs[0])
        if d in ('provider', 'impl+provider'):
            provider(*pxs)(cls)
        setattr(mod, name, cls)
        classes.append(cls)
    return mod, ifs, classes


def names_of(spec, ifs):
    idx = {id(I): 'PI%d' % i for i, I in enumerate(ifs)}
    return sorted(idx[id(i)] for i in spec.flattened() if id(i) in idx)


def loader_main():
    """entry point of the fresh interpreter: {'snapshot', 'world', 'blobs': [[label, kind, b64, expected names]...]} on stdin"""
    req = json.loads(sys.stdin.read())
    import zope
    p = os.path.join(req['snapshot'], 'zope')
    if p not in zope.__path__:
        zope.__path__.insert(0, p)
    import zope.interface
    from zope.interface import providedBy, implementedBy
    from zope.interface import _compat
    impl = 'c' if _compat._should_attempt_c_optimizations() and _compat._c_optimizations_available() else 'py'
    mod, ifs, classes = build_world(req['world'])
    out = []
    for label, kind, b64, expected in req['blobs']:
        try:
            v = pickle.loads(base64.b64decode(b64))
        except BaseException as e:     # noqa
            out.append([label, 'load-error:' + type(e).__name__, None])
            continue
        if kind == 'iface':
            out.append([label, 'identical' if v is getattr(mod, expected) else 'not-identical', None])
        elif kind == 'implements':
            cls = getattr(mod, expected)
            out.append([label, 'identical' if v is implementedBy(cls) else 'not-identical', names_of(v, ifs)])
        elif kind == 'empty':
            from zope.interface.declarations import _empty
            out.append([label, 'identical' if v is _empty else 'not-identical', None])
        elif kind in ('provides', 'classprovides'):
            out.append([label, 'names', names_of(v, ifs)])
        elif kind == 'object':
            out.append([label, 'names', names_of(providedBy(v), ifs)])
    sys.stdout.write(json.dumps({'impl': impl, 'results': out}))


# --------------------------------------------------------------------------
# execution
# --------------------------------------------------------------------------

def execute(program, ctx, mode):
    if mode.get('what') == 'order':
        return execute_order(program, ctx, mode)
    return execute_pickle(program, ctx, mode)


def execute_order(program, ctx, mode):
    from zope.interface import Interface, implementedBy
    from zope.interface.interface import InterfaceClass
    import random
    pool = program['world']['pool']
    specs = []
    keys = []
    kinds = []
    keepalive = []
    def fresh(x):
        # a new, non-interned string object with the same value (names built at run time, unpickled, decoded ...)
        return (x + '#')[:-1]
    sd = program.get('seed') or 0
    for i, it in enumerate(pool):
        if it['kind'] == 'I':
            # names and modules are interned strings (what a class statement gives) or fresh objects, independently
            mkn = sys.intern if h64(sd, i, 'name') & 1 else fresh
            mkm = sys.intern if h64(sd, i, 'mod') & 1 else fresh
            s = InterfaceClass(mkn(it['name']), (Interface,), {}, __module__=mkm(it['mod']))
            key = (None if ' ' in it['name'] else it['name'], it['mod'])
            if s.__name__ != key[0]:
                ctx.violation('C12', 'interface-name', 'C12|interface-key', {'got': s.__name__, 'want': key[0]})
        else:
            cls = type(it['name'] or 'X', (object,), {'__module__': it['mod']})
            cls.__name__ = it['name']
            keepalive.append(cls)
            s = implementedBy(cls)
            key = (s.__name__, s.__module__)
            want = ((it['mod'] or '?') + '.' + (it['name'] or '?'), 'zope.interface.declarations')
            if key != want:
                ctx.violation('C12', 'implements-name', 'C12|implements-key', {'got': key, 'want': want})
        specs.append(s)
        keys.append(key)
        kinds.append(it['kind'])
    n = len(specs)
    ctx.log('pool', [(kinds[i], keys[i]) for i in range(n)])

    class Foreign:
        def __init__(self, name=None, module=None):
            if name is not None:
                self.__name__ = name
            if module is not None:
                self.__module__ = module
    class SlotFwd:
        """no instance dictionary, no `__name__` on the type: name and module are answered by an attribute hook (the layout of a
        transparent proxy or of a small lazy reference); leaves every comparison to the other operand"""
        __slots__ = ('_n', '_m')

        def __init__(self, name, module):
            object.__setattr__(self, '_n', name)
            object.__setattr__(self, '_m', module)

        def __getattribute__(self, name):
            if name == '__name__':
                return object.__getattribute__(self, '_n')
            if name == '__module__':
                return object.__getattribute__(self, '_m')
            return object.__getattribute__(self, name)

    class SlotProxy:
        """the same layout, every attribute and every comparison forwarded to the wrapped object"""
        __slots__ = ('_w',)

        def __init__(self, w):
            object.__setattr__(self, '_w', w)

        def __getattribute__(self, name):
            return getattr(object.__getattribute__(self, '_w'), name)

        def __eq__(self, other):
            return object.__getattribute__(self, '_w') == other

        def __ne__(self, other):
            return object.__getattribute__(self, '_w') != other

        def __lt__(self, other):
            return object.__getattribute__(self, '_w') < other

        def __le__(self, other):
            return object.__getattribute__(self, '_w') <= other

        def __gt__(self, other):
            return object.__getattribute__(self, '_w') > other

        def __ge__(self, other):
            return object.__getattribute__(self, '_w') >= other

        def __hash__(self):
            return hash(object.__getattribute__(self, '_w'))
    ops = [('==', lambda a, b: a == b), ('!=', lambda a, b: a != b), ('<', lambda a, b: a < b), ('<=', lambda a, b: a <= b),
           ('>', lambda a, b: a > b), ('>=', lambda a, b: a >= b)]

    def model(opn, i, j):
        a, b = keys[i], keys[j]
        if opn == '==':
            if kinds[i] == 'K' or kinds[j] == 'K':
                # class specifications keep identity equality; an interface compared with one falls back on the keys,
                # which never coincide (an Implements' module is always zope.interface.declarations ... unless provoked)
                if i == j:
                    return True
                if kinds[i] == 'K' and kinds[j] == 'K':
                    return False
                return a == b
            return a == b
        if opn == '!=':
            return not model('==', i, j)
        if i == j:
            return opn in ('<=', '>=')
        return {'<': a < b, '<=': a <= b, '>': a > b, '>=': a >= b}[opn]
    matrix = []
    for i in range(n):
        for j in range(n):
            for opn, f in ops:
                try:
                    got = f(specs[i], specs[j])
                except BaseException as e:   # noqa
                    got = 'raise:' + type(e).__name__
                want = model(opn, i, j)
                matrix.append(got)
                ctx.state(kinds[i], kinds[j], keys[i][0] == keys[j][0], keys[i][1] == keys[j][1], opn, got)
                if got is not want:
                    ctx.violation('C12', 'comparison', 'C12|%s|%s-vs-%s|%s' % (
                        opn, kinds[i], kinds[j],
                        'equal-keys' if keys[i] == keys[j] else ('equal-names' if keys[i][0] == keys[j][0] else (
                            'equal-modules' if keys[i][1] == keys[j][1] else 'different'))),
                        {'a': keys[i], 'b': keys[j], 'got': got, 'want': want})
            if kinds[i] == 'I' and kinds[j] == 'I' and keys[i] == keys[j] and hash(specs[i]) != hash(specs[j]):
                ctx.violation('C12', 'hash', 'C12|hash|equal-interfaces-hash-differently', {'a': keys[i]})
    for i in range(n):
        s = specs[i]
        r = [s < None, s <= None, s > None, s >= None, s == None, s != None,      # noqa: E711
             None > s, None >= s, None < s, None <= s, None == s, None != s]       # noqa: E711
        want = [True, True, False, False, False, True, True, True, False, False, False, True]
        matrix.append(r)
        if r != want:
            ctx.violation('C12', 'none', 'C12|None|%s' % kinds[i], {'a': keys[i], 'got': r})
        hash(s)
    # foreign operands: logged for the cross-implementation / cross-process comparison
    foreign = [Foreign(), Foreign('I', 'm'), Foreign('I'), object(), 3, 'I', Foreign(keys[0][0], keys[0][1]),
               SlotFwd('I', 'm'), SlotFwd(keys[0][0], keys[0][1]), SlotFwd(keys[-1][0], keys[-1][1]), SlotProxy(specs[0]), SlotProxy(specs[-1])]
    # weak proxies as operands: a live one stands for its referent; one whose referent has died raises ReferenceError when asked
    import weakref as _weakref

    class Mortal:
        pass
    gone = Mortal()
    dead_proxy = _weakref.proxy(gone)
    del gone
    foreign += [_weakref.proxy(specs[0]), dead_proxy]
    ordering_only = []
    if any(k[0] is None for k in keys):
        # a nameless interface against an operand with a string name compares None with str: the known error-path
        # divergence F11d (C: False, Python: TypeError); only operands without a name are used there
        foreign = [Foreign(), object(), 3, 'I', dead_proxy]
        # ... but the four ordering operators raise TypeError in both implementations there: logged too (a comparison that
        # fails must fail cleanly -- no answer with the error left pending)
        ordering_only = [Foreign('I', 'm'), SlotFwd('I', 'm')]
    for f in ordering_only:
        row = []
        for s in specs[:3]:
            for opn, fn in ops[2:]:
                for a, b in ((s, f), (f, s)):
                    try:
                        row.append(fn(a, b))
                    except BaseException as e:   # noqa
                        row.append('raise:' + type(e).__name__)
        matrix.append(row)
    for f in foreign:
        row = []
        for s in specs[:3]:
            for opn, fn in ops:
                for a, b in ((s, f), (f, s)):
                    try:
                        row.append(fn(a, b))
                    except BaseException as e:   # noqa
                        row.append('raise:' + type(e).__name__)
            if type(f) in (SlotFwd, SlotProxy):
                # the rich-comparison methods called directly (no reflection to the rescue)
                for meth in ('__eq__', '__ne__', '__lt__', '__le__', '__gt__', '__ge__'):
                    try:
                        r_ = getattr(s, meth)(f)
                        row.append('NotImplemented' if r_ is NotImplemented else r_)
                    except BaseException as e:   # noqa
                        row.append('raise:' + type(e).__name__)
        matrix.append(row)
    ctx.log('matrix', h64(repr(matrix)))
    # fault `address-reuse`: a long-lived interface is compared with the specification of a class; the class is dropped and
    # collected; the specification of another class (a name on the other side of the interface's) takes its address, if the
    # allocator plays along; the interface's next comparisons are with that one.  Judged against the keys.
    import gc as _gc
    churn_log = []
    for i in [i_ for i_ in range(n) if kinds[i_] == 'I' and keys[i_][0] is not None][:2]:
        I = specs[i]

        def check_pair(s, when):
            ks = (s.__name__, s.__module__)
            for opn, f in ops:
                for a, b, ka, kb in ((I, s, keys[i], ks), (s, I, ks, keys[i])):
                    try:
                        got = f(a, b)
                    except BaseException as e:   # noqa
                        got = 'raise:' + type(e).__name__
                    want = {'==': ka == kb, '!=': ka != kb, '<': ka < kb, '<=': ka <= kb, '>': ka > kb, '>=': ka >= kb}[opn]
                    churn_log.append(got)
                    if got is not want:
                        ctx.violation('C12', 'comparison-after-churn', 'C12|%s|I-vs-K|%s' % (opn, when), {'a': ka, 'b': kb, 'got': got, 'want': want})
        A = type('a', (), {'__module__': '\x01'})
        sa = implementedBy(A)
        check_pair(sa, 'first-class')
        addr = id(sa)
        del sa, A
        _gc.collect()
        ctx.fault('drop')
        ctx.fault('gc')
        misses = []
        for _ in range(40):
            Bc = type('z', (), {'__module__': '\U0010ffff'})
            sb = implementedBy(Bc)
            if id(sb) == addr:
                ctx.fault('address-reuse')
                break
            misses.append((Bc, sb))
        check_pair(sb, 'class-specification-at-the-address-of-a-collected-one')
        try:
            srt = sorted([sb, I, sb, I])
            if [(x.__name__, x.__module__) for x in srt] != sorted([(x.__name__, x.__module__) for x in srt]):
                ctx.violation('C12', 'sort', 'C12|sorted|not-in-key-order|after-churn', {})
        except BaseException as e:    # noqa
            ctx.violation('C12', 'sort', 'C12|sorted|raises-%s' % type(e).__name__, {})
        del misses, sb, Bc
    ctx.log('churn', h64(repr(churn_log)))
    # transitivity / totality on triples follow from agreement with the key model; sorting must be deterministic
    base = sorted(specs + [None], key=lambda x: 0) if False else None
    seqs = []
    for ps in program['ops'][0]['perms']:
        items = list(range(n))
        random.Random(ps).shuffle(items)
        try:
            srt = sorted([specs[i] for i in items])
        except BaseException as e:    # noqa
            ctx.violation('C12', 'sort', 'C12|sorted|raises-%s' % type(e).__name__, {})
            return
        kseq = [(x.__name__, x.__module__) for x in srt]
        seqs.append(kseq)
        if kseq != sorted(keys):
            ctx.violation('C12', 'sort', 'C12|sorted|not-in-key-order', {'got': kseq, 'want': sorted(keys)})
        if len(set(keys)) == n and [id(x) for x in srt] != [id(specs[i]) for i in sorted(range(n), key=lambda i: keys[i])]:
            ctx.violation('C12', 'sort', 'C12|sorted|permutation-dependent', {})
    ctx.log('sorted', seqs[0] if seqs else None)
    # with None: every interface sorts before None
    try:
        srt = sorted(specs + [None], key=None) if False else sorted([None] + specs)
        if srt[-1] is not None:
            ctx.violation('C12', 'sort', 'C12|sorted|None-not-last', {})
    except TypeError:
        ctx.violation('C12', 'sort', 'C12|sorted|raises-with-None', {})
    ctx.nops += 1


def execute_pickle(program, ctx, mode):
    from zope.interface import (implementedBy, providedBy, directlyProvides, alsoProvides, noLongerProvides, classImplements,
                                classImplementsOnly, classImplementsFirst, directlyProvidedBy)
    from zope.interface.declarations import _empty
    W = program['world']
    mod, ifs, classes = build_world(W)
    nI = len(ifs)
    # what a metaclass hook pickled at the moment the specification was attached to its class refers to that very specification
    for cname, blob in mod._hook_blobs:
        ctx.fault('cb-reenter-pickle-at-attachment')
        cls_ = getattr(mod, cname)
        if isinstance(blob, str):
            ctx.violation('C13', 'hook-dump', 'C13|dumps-raises|implements-at-attachment|%s' % blob, {'class': cname})
        try:
            v_ = pickle.loads(blob)
        except Exception as e:      # noqa
            ctx.violation('C13', 'hook-load', 'C13|loads-raises|implements-at-attachment|%s' % type(e).__name__, {'class': cname})
        if v_ is not implementedBy(cls_):
            ctx.violation('C13', 'hook-identity', 'C13|not-identical|implements-pickled-at-attachment', {'class': cname})
    obs = []
    only = [cd['decl'] == 'only' for cd in W['classes']]
    hist_class_ops = [False]
    stash = []
    last_class_op = [-1]
    last_ob_decl = {}

    def check_bytes(b, what):
        if b'DEFINITION-MARKER' in b or b'attr' in b:
            ctx.violation('C13', 'by-reference', 'C13|pickle-contains-definition|%s' % what, {})
        if what in ('iface', 'implements'):
            for opc, arg, pos in pickletools.genops(b):
                if opc.name in ('BUILD', 'SETITEM', 'SETITEMS', 'EMPTY_DICT', 'DICT'):
                    ctx.violation('C13', 'by-reference', 'C13|pickle-has-state|%s' % what, {'opcode': opc.name})
                    break

    def items():
        out = []
        for i, I in enumerate(ifs):
            out.append(('iface:%d' % i, 'iface', I, 'PI%d' % i))
        for c, cls in enumerate(classes):
            out.append(('implements:%d' % c, 'implements', implementedBy(cls), 'PK%d' % c))
            out.append(('classprovides:%d' % c, 'classprovides', cls.__provides__, None))
        for o, ob in enumerate(obs):
            p = getattr(ob, '__provides__', None)
            if p is not None:
                out.append(('provides:%d' % o, 'provides', p, None))
            out.append(('object:%d' % o, 'object', ob, None))
        out.append(('empty', 'empty', _empty, None))
        return out

    def shape(c):
        return 'only' if only[c] else W['classes'][c]['decl']

    for step, op in enumerate(program['ops']):
        ctx.step = step
        ctx.nops += 1
        name = op['op']
        if name == 'newob':
            obs.append(classes[op['c'] % len(classes)]())
            ctx.log(step, 'newob', op['c'] % len(classes))
        elif name in ('dprov', 'aprov', 'nprov'):
            if not obs:
                continue
            ob = obs[op['o'] % len(obs)]
            if name == 'dprov':
                args = [ifs[x % nI] for x in op['xs']]
                if (op.get('k', 0) >> 5) % 4 == 0 and classes:
                    # a declaration may be given as an argument: here the implementation specification of some class
                    args.insert((op.get('k', 0) >> 9) % (len(args) + 1), implementedBy(classes[(op.get('k', 0) >> 11) % len(classes)]))
                    ctx.probe('class-specification-as-declaration-argument')
                directlyProvides(ob, *args)
            elif name == 'aprov':
                alsoProvides(ob, *[ifs[x % nI] for x in op['xs']])
            else:
                try:
                    noLongerProvides(ob, ifs[op['x'] % nI])
                except ValueError:
                    pass
            last_ob_decl[op['o'] % len(obs)] = step
            ctx.log(step, name, op['o'] % len(obs), names_of(providedBy(ob), ifs))
        elif name == 'cdecl':
            c = op['c'] % len(classes)
            xs = [ifs[x % nI] for x in op['xs']]
            how = op['how']
            if how == 'impl':
                classImplements(classes[c], *xs)
            elif how == 'only':
                classImplementsOnly(classes[c], *xs)
                only[c] = True
            elif how == 'first':
                if xs:
                    classImplementsFirst(classes[c], xs[0])
            elif how == 'only_bad':
                # an *only* declaration that fails half-way (a list where interfaces are expected): the caller catches the
                # error and carries on; the class specification must still pickle by reference afterwards
                try:
                    classImplementsOnly(classes[c], list(xs) or [ifs[0]])
                    ctx.probe('only-declaration-with-a-list-accepted')
                except TypeError:
                    ctx.fault('failing-only-declaration')
                only[c] = True
            elif how == 'metaonly':
                classImplementsOnly(mod.DeclMeta, *xs[:1])          # changes what classes of that metaclass provide through their type
            elif how == 'metaimpl':
                classImplements(mod.DeclMeta, *xs)
            elif how == 'calso':
                alsoProvides(classes[c], *xs)          # extends the class's own provides-declaration after it exists
            elif how == 'cno':
                try:
                    if xs:
                        noLongerProvides(classes[c], xs[0])
                except ValueError:
                    pass
            else:
                directlyProvides(classes[c], *xs)
            hist_class_ops[0] = True
            last_class_op[0] = step
            ctx.log(step, 'cdecl', c, how, op['xs'])
        elif name == 'gc':
            gc.collect()
            ctx.fault('gc')
        elif name == 'dump':
            proto = op['proto'] % 6
            del stash[:]
            for label, kind, v, ref in items():
                if kind not in ('provides', 'classprovides') or type(v).__name__ not in ('Provides', 'ClassProvides'):
                    continue        # (an undeclared instance shows its class's specification as __provides__)
                args = v.__reduce__()[1]
                # what the live declaration holds directly right now (after elision of what was redundant when declared):
                # independent of __reduce__, and the least a later load has to provide
                kept = set()
                for a in v.__bases__[:-1]:
                    if any(a is I for I in ifs):          # interfaces only: a class specification among the bases follows its class
                        kept |= {x.__name__ for x in a.__iro__ if x.__name__.startswith('PI')}
                stash.append((label, kind, pickle.dumps(v, proto), args, kept, v))
            ctx.probe('dumped-for-a-later-load')
            ctx.log(step, 'dump', proto, len(stash))
        elif name == 'loadlater':
            for label, kind, b, args, kept, v_live in stash:
                try:
                    v2 = pickle.loads(b)
                except BaseException as e:    # noqa
                    ctx.violation('C13', 'load', 'C13|later-load|loads-raises|%s|%s' % (kind, type(e).__name__), {'label': label})
                    continue
                # what such a declaration says is: the interfaces it was made with, plus what its class (for a class's own
                # declaration: its metaclass) implements *now*
                direct = args[1:] if kind == 'provides' else args[2:]
                through = args[0] if kind == 'provides' else args[1]
                want = set()
                for a in direct:
                    want |= set(names_of(a, ifs)) if hasattr(a, 'flattened') else {x.__name__ for x in a.__iro__ if x.__name__.startswith('PI')}
                now = set(names_of(implementedBy(through), ifs))
                want |= now                      # upper bound: everything that was declared (an elided declaration may come back)
                least = kept | now               # lower bound: what the live declaration held at dump time
                got = set(names_of(v2, ifs))
                ctx.probe('loaded-later')
                if not (least <= got <= want):
                    ctx.violation('C13', 'same-interfaces', 'C13|later-load|provides-differ|%s|%s' % (kind, 'missing' if least - got else 'extra'),
                                  {'label': label, 'got': sorted(got), 'at-least': sorted(least), 'at-most': sorted(want)})
                # the declaration object that was pickled is still held (by whoever asked for it then), possibly replaced on its
                # class / object since: it must still say what it held directly, or the pickle and the original have come apart
                live_now = set(names_of(v_live, ifs))
                ctx.probe('kept-declaration-compared-with-its-pickle')
                if not (least <= live_now):
                    ctx.violation('C13', 'same-interfaces', 'C13|later-load|provides-differ|%s|kept-original-lost-what-its-pickle-provides' % kind,
                                  {'label': label, 'original-now': sorted(live_now), 'loaded': sorted(got), 'at-least': sorted(least)})
            ctx.log(step, 'loadlater', len(stash))
        elif name == 'roundtrip':
            proto = op['proto'] % 6
            for label, kind, v, ref in items():
                want_names = None if kind in ('iface', 'empty') else names_of(providedBy(v) if kind == 'object' else v, ifs)
                try:
                    b = pickle.dumps(v, proto)
                except BaseException as e:    # noqa
                    ctx.violation('C13', 'dump', 'C13|dumps-raises|%s|%s' % (kind, type(e).__name__), {'label': label})
                    continue
                check_bytes(b, kind)
                if op.get('gc'):
                    gc.collect()
                    ctx.fault('gc-between-dump-and-load')
                try:
                    v2 = pickle.loads(b)
                except BaseException as e:    # noqa
                    ctx.violation('C13', 'load', 'C13|loads-raises|%s|%s' % (kind, type(e).__name__), {'label': label})
                    continue
                c = int(label.split(':')[1]) if ':' in label and kind in ('implements', 'classprovides') else None
                ctx.state(kind, proto, shape(c) if c is not None else None, tuple(want_names or ()))
                if kind in ('iface', 'implements', 'empty'):
                    if v2 is not v:
                        ctx.violation('C13', 'identity', 'C13|not-identical|%s%s' % (kind, ('|class-declared-with-' + shape(c)) if c is not None else ''),
                                      {'label': label, 'got': repr(v2)[:100], 'proto': proto})
                    elif not (v2 == v and hash(v2) == hash(v)):
                        ctx.violation('C13', 'equality', 'C13|not-equal|%s' % kind, {'label': label})
                else:
                    got = names_of(providedBy(v2) if kind == 'object' else v2, ifs)
                    if got != want_names and set(got) > set(want_names) and kind in ('provides', 'object'):
                        # A declaration that was redundant when it was made was dropped from the live declaration
                        # (allowed, C01); if the class was narrowed afterwards, the pickle -- which stores what was
                        # declared -- legitimately brings it back.  Accepted only in exactly that window.
                        o_ = int(label.split(':')[1])
                        prov_ = v if kind == 'provides' else getattr(v, '__provides__', None)
                        declared = set()
                        if prov_ is not None:
                            for a in prov_.__reduce__()[1][1:]:
                                declared |= set(names_of(a, ifs)) if hasattr(a, 'flattened') else {x.__name__ for x in a.__iro__ if x.__name__.startswith('PI')}
                        if last_class_op[0] > last_ob_decl.get(o_, -1) and (set(got) - set(want_names)) <= declared:
                            ctx.probe('elided-declaration-reexpanded-after-class-narrowing')
                            got = want_names
                    if got != want_names and kind == 'classprovides' and set(got) > set(want_names):
                        # the same for a class's own declaration: an interface that was redundant when declared (the metaclass
                        # implemented it) was dropped from the live declaration; the pickle stores what was declared, so it
                        # comes back once the metaclass no longer implements it
                        declared = set()
                        for a in v.__reduce__()[1][2:]:
                            declared |= {x.__name__ for x in a.__iro__ if x.__name__.startswith('PI')} if not hasattr(a, 'flattened') else set(names_of(a, ifs))
                        if (set(got) - set(want_names)) <= declared:
                            ctx.probe('elided-class-declaration-reexpanded-after-metaclass-narrowing')
                            got = want_names
                    if got != want_names:
                        ctx.violation('C13', 'same-interfaces', 'C13|provides-differ|%s|%s' % (
                            kind, 'missing' if set(want_names) - set(got) else 'extra'),
                            {'label': label, 'got': got, 'want': want_names, 'proto': proto})
                    if kind == 'provides':
                        if v2 is v:
                            ctx.probe('provides-roundtrip-identical')
                        else:
                            ctx.probe('provides-roundtrip-new-object')
                    if kind == 'object' and type(v2) is not type(v):
                        ctx.violation('C13', 'object-type', 'C13|object-type-differs', {'label': label})
            ctx.log(step, 'roundtrip', proto)
        elif name == 'restart':
            proto = op['proto'] % 6
            blobs = []
            for label, kind, v, ref in items():
                want_names = None if kind in ('iface', 'empty') else names_of(providedBy(v) if kind == 'object' else v, ifs)
                b = pickle.dumps(v, proto)
                check_bytes(b, kind)
                blobs.append([label, kind, base64.b64encode(b).decode(), ref if kind in ('iface', 'implements') else want_names])
            snapshot = os.path.dirname(os.path.dirname(os.path.dirname(os.path.abspath(sys.modules['zope.interface'].__file__))))
            env = dict(os.environ)
            env['PURE_PYTHON'] = '0' if op['impl'] == 'c' else '1'
            env['PYTHONHASHSEED'] = op['hashseed']
            env.pop('ZISIM_IMPL', None)
            r = subprocess.run([sys.executable, '-c', 'from zisim.machines.persist import loader_main; loader_main()'],
                               input=json.dumps({'snapshot': snapshot, 'world': W, 'blobs': blobs}), capture_output=True, text=True,
                               env=env, timeout=60)
            if r.returncode != 0:
                raise RuntimeError('loader failed: ' + r.stderr[-1500:])
            res = json.loads(r.stdout)
            ctx.fault('restart')
            ctx.fault('restart-into-' + res['impl'])
            want = {b[0]: b for b in blobs}
            for label, status, got in res['results']:
                kind = want[label][1]
                c = int(label.split(':')[1]) if kind in ('implements', 'classprovides') else None
                if status.startswith('load-error'):
                    ctx.violation('C13', 'load', 'C13|restart|loads-raises|%s|%s' % (kind, status.split(':')[1]), {'label': label})
                elif kind in ('iface', 'implements', 'empty'):
                    if status != 'identical':
                        ctx.violation('C13', 'identity', 'C13|restart|not-identical|%s%s' % (
                            kind, ('|class-declared-with-' + shape(c)) if c is not None else ''), {'label': label, 'provides': got})
                else:
                    if got != want[label][3]:
                        ctx.violation('C13', 'same-interfaces', 'C13|restart|provides-differ|%s|%s' % (
                            kind, 'missing' if set(want[label][3]) - set(got) else 'extra'),
                            {'label': label, 'got': got, 'want': want[label][3]})
            ctx.log(step, 'restart', proto, op['impl'], op['hashseed'])
        else:
            raise ValueError(name)


def describe(program):
    return {'world': program['world'], 'ops': program['ops'][:10]}


def run(req, item):
    return standard_run(generate, execute, req, item, describe)
