"""Machine `odd` -- programs over the twin surfaces with inputs nobody wrote an expectation for (C10).

A catalogue of small operations over the surfaces that exist twice (C and
Python): `__provides__` / `__providedBy__` values that are None, not a
specification or a raising property; objects without `__class__`-level help;
`__conform__` variants; comparison and hashing against foreign objects; cached
None with a default; non-string names; generators and non-sequences as
`required`; unhashable operands; super proxies; wrong call arity.  A program is a
PRNG-chosen sequence of catalogue entries executed in one process (so cache
state carries over between entries); every entry logs its operand labels and the
normalised result (value kind or exception *type*).  The engine executes the
same program under PURE_PYTHON=0 and =1 and diffs the logs.

Vocabulary rule (DESIGN.md 3/C10): operands have the documented types except on
the surfaces the property itself names.
"""
from ..prng import Streams
from .base import standard_run

MACHINE = 'odd'


def generate(seed, mode):
    S = Streams(seed)
    o = S('ops')
    n = o.randint(15, 60)
    return {'machine': MACHINE, 'seed': seed, 'ops': [{'i': o.randrange(1 << 20)} for _ in range(n)]}


def build_catalogue():
    from zope.interface import (Interface, implementer, providedBy, implementedBy, directlyProvides, alsoProvides,
                                noLongerProvides, directlyProvidedBy, classImplements, Declaration)
    from zope.interface import declarations as zd
    from zope.interface.declarations import getObjectSpecification, Provides, ClassProvides
    from zope.interface.adapter import AdapterRegistry, VerifyingAdapterRegistry
    from zope.interface.interface import InterfaceClass, adapter_hooks

    class I(Interface):
        pass

    class J(I):
        pass

    class P(Interface):
        pass

    @implementer(I)
    class A:
        pass

    class E(Exception):
        pass

    def raising(exc):
        def g(self):
            raise exc
        return property(g)

    def obj(**kw):
        return type('O', (A,), dict(kw))()
    cat = []

    def add(label, thunk):
        cat.append((label, thunk))
    # ---- odd __provides__ / __providedBy__ --------------------------------------------------
    for name in ('__provides__', '__providedBy__'):
        for vl, v in [('None', None), ('int', 42), ('str', 'x'), ('attrerr', raising(AttributeError('x'))), ('E', raising(E('x'))),
                      ('iface', I), ('emptydecl', zd._empty), ('implements', implementedBy(A)), ('decl', Declaration(J))]:
            o = obj(**{name: v})
            add('providedBy cls.%s=%s' % (name, vl), lambda o=o: providedBy(o))
            add('I.providedBy cls.%s=%s' % (name, vl), lambda o=o: I.providedBy(o))
            add('J.providedBy cls.%s=%s' % (name, vl), lambda o=o: J.providedBy(o))
            add('getObjectSpecification cls.%s=%s' % (name, vl), lambda o=o: getObjectSpecification(o))
            add('I(o,alt) cls.%s=%s' % (name, vl), lambda o=o: I(o, 'alt') is o)
            add('directlyProvidedBy cls.%s=%s' % (name, vl), lambda o=o: list(directlyProvidedBy(o)))
            if not isinstance(v, property):
                o2 = A()
                try:
                    setattr(o2, name, v)
                except Exception:
                    pass
                add('providedBy inst.%s=%s' % (name, vl), lambda o2=o2: providedBy(o2))
                add('J.providedBy inst.%s=%s' % (name, vl), lambda o2=o2: J.providedBy(o2))
                add('I.providedBy inst.%s=%s' % (name, vl), lambda o2=o2: I.providedBy(o2))
                add('I(o,alt) inst.%s=%s' % (name, vl), lambda o2=o2: I(o2, 'alt') is o2)
    # ---- the product __providedBy__ x __provides__ (the "class doesn't understand descriptors" path) ------
    pvals = [('absent', None), ('None', None), ('int', 42), ('attrerr', raising(AttributeError('x'))), ('E', raising(E('x'))),
             ('iface', J), ('decl', Declaration(J)), ('implements', implementedBy(A))]
    for pbl, pb in pvals:
        if pbl in ('absent', 'iface', 'decl', 'implements'):
            continue          # a real specification (or nothing) as __providedBy__ is covered above
        for pl, pv in pvals:
            for where in ('cls', 'inst'):
                ns = {'__providedBy__': pb}
                if where == 'cls':
                    if pl != 'absent':
                        ns['__provides__'] = pv
                    o = type('O', (A,), ns)()
                else:
                    if isinstance(pv, property) or pl == 'absent':
                        continue
                    o = type('O', (A,), ns)()
                    o.__provides__ = pv
                lab = 'pb=%s %s.__provides__=%s' % (pbl, where, pl)
                add('providedBy ' + lab, lambda o=o: providedBy(o))
                add('J.providedBy ' + lab, lambda o=o: J.providedBy(o))
                add('I(o,alt) ' + lab, lambda o=o: I(o, 'alt') is o)
    # a metaclass-level __provides__ that fails while the instance has its own
    for ml, mv in [('E', raising(E('x'))), ('attrerr', raising(AttributeError('x')))]:
        Meta = type('Meta', (type,), {'__provides__': mv})
        KO = Meta('KO', (A,), {'__providedBy__': 42})
        o = KO()
        o.__provides__ = Declaration(J)
        add('providedBy pb=int inst.__provides__=decl type(cls).__provides__=' + ml, lambda o=o: providedBy(o))
        add('J.providedBy pb=int inst.__provides__=decl type(cls).__provides__=' + ml, lambda o=o: J.providedBy(o))
    # ---- implementedBy on odd arguments ---------------------------------------------------------
    for vl, v in [('int', 5), ('None', None), ('func', lambda: 1), ('builtin int', int), ('list type', list), ('instance', A()), ('str', 's'),
                  ('oldstyle-tuple', type('Old', (), {'__implemented__': (I,)})), ('oldstyle-iface', type('Old2', (), {'__implemented__': I})),
                  ('partial', __import__('functools').partial(int)), ('method', A().__init__)]:
        add('implementedBy ' + vl, lambda v=v: implementedBy(v))
        add('I.implementedBy ' + vl, lambda v=v: I.implementedBy(v))
    # ---- comparison / hashing against foreign objects ------------------------------------------------

    class F:
        def __init__(self, n=None, m=None):
            if n is not None:
                self.__name__ = n
            if m is not None:
                self.__module__ = m
    ops = [('==', lambda a, b: a == b), ('!=', lambda a, b: a != b), ('<', lambda a, b: a < b), ('<=', lambda a, b: a <= b),
           ('>', lambda a, b: a > b), ('>=', lambda a, b: a >= b)]
    for vl, v in [('None', None), ('object', object()), ('int', 3), ('named-equal', F('I', I.__module__)), ('named-lt', F('A', 'a')),
                  ('name-only', F('I')), ('module-only', F(None, 'm')), ('iface', J), ('self', I), ('implements', implementedBy(A)), ('str', 'I'),
                  ('name-not-str', F(3, 4)), ('type', A)]:
        for opn, op in ops:
            add('I %s %s' % (opn, vl), lambda op=op, v=v: op(I, v))
            add('%s %s I' % (vl, opn), lambda op=op, v=v: op(v, I))
            add('implements %s %s' % (opn, vl), lambda op=op, v=v: op(implementedBy(A), v))
            add('%s %s implements' % (vl, opn), lambda op=op, v=v: op(v, implementedBy(A)))
    add('hash(I) == hash((name, module))', lambda: hash(I) == hash((I.__name__, I.__module__)))
    add('hash(implements) stable', lambda: hash(implementedBy(A)) == hash(implementedBy(A)))
    # ---- isOrExtends / extends / calling a spec with odd operands ----------------------------------------
    for vl, v in [('list', []), ('None', None), ('int', 1), ('iface', J), ('dict', {}), ('object', object()), ('str', 'I'), ('implements', implementedBy(A))]:
        add('I.isOrExtends ' + vl, lambda v=v: I.isOrExtends(v))
        add('I.extends ' + vl, lambda v=v: I.extends(v))
        add('implements.__call__ ' + vl, lambda v=v: implementedBy(A)(v))
        add('providedBy(A()).isOrExtends ' + vl, lambda v=v: providedBy(A()).isOrExtends(v))
        add('Declaration.__contains__ ' + vl, lambda v=v: v in Declaration(I))
    # ---- adaptation call arity and odd objects -----------------------------------------------------------
    add('I() no args', lambda: I())
    add('I(a, b, c)', lambda: I(1, 2, 3))
    add('I(obj=...)', lambda: I(obj=A()) is not None)
    add('I(obj, alternate=...)', lambda: I(object(), alternate='alt'))
    add('I(x, bogus=1)', lambda: I(object(), bogus=1))
    add('I.__adapt__(None)', lambda: I.__adapt__(None))
    add('I.__adapt__(provider)', lambda: I.__adapt__(A()) is not None)
    add('I(int)', lambda: I(5, 'alt'))
    add('I(class A)', lambda: I(A, 'alt'))
    add('P(A())', lambda: P(A()))

    class ConformNotCallable:
        __conform__ = 5
    add('I(obj with non-callable __conform__)', lambda: I(ConformNotCallable(), 'alt'))

    class ConformTooManyArgs:
        def __conform__(self, a, b):
            return None
    add('I(obj with 2-arg __conform__)', lambda: I(ConformTooManyArgs(), 'alt'))
    # ---- registries: cached None with a default, names, odd required ---------------------------------------
    for R in (AdapterRegistry, VerifyingAdapterRegistry):
        r = R()
        r.register((I,), P, '', 'v')
        r.register((I,), P, 'n', lambda o: None)
        r.register((I, I), P, '', lambda a, b: ('multi', 1))
        r.subscribe((I,), P, lambda o: 'sub')
        r.subscribe((I,), None, lambda o: None)
        D = object()
        rn = R.__name__
        add(rn + ' lookup miss default', lambda r=r: r.lookup((P,), P, '', D) is D)
        add(rn + ' lookup miss no default', lambda r=r: r.lookup((P,), P, ''))
        add(rn + ' lookup1 miss default', lambda r=r: r.lookup1(P, P, '', D) is D)
        add(rn + ' lookup1 miss no default', lambda r=r: r.lookup1(P, P, ''))
        add(rn + ' lookup1 hit', lambda r=r: r.lookup1(I, P, ''))
        add(rn + ' lookup hit', lambda r=r: r.lookup((I,), P, ''))
        add(rn + ' lookup hit default ignored', lambda r=r: r.lookup((J,), P, '', D))
        add(rn + ' adapter_hook factory returns None default', lambda r=r: r.adapter_hook(P, A(), 'n', D) is D)
        add(rn + ' queryAdapter factory returns None', lambda r=r: r.queryAdapter(A(), P, 'n'))
        add(rn + ' queryAdapter miss default', lambda r=r: r.queryAdapter(object(), P, '', D) is D)
        add(rn + ' queryMultiAdapter', lambda r=r: r.queryMultiAdapter((A(), A()), P))
        add(rn + ' queryMultiAdapter miss default', lambda r=r: r.queryMultiAdapter((A(), object()), P, '', D) is D)
        add(rn + ' queryAdapter super', lambda r=r: r.queryAdapter(super(A, A()), P, ''))
        add(rn + ' subscribers', lambda r=r: r.subscribers((A(),), P))
        add(rn + ' subscribers handlers', lambda r=r: r.subscribers((A(),), None))
        add(rn + ' names', lambda r=r: sorted(r.names((I,), P)))
        add(rn + ' lookupAll', lambda r=r: sorted(k for k, v in r.lookupAll((I,), P)))
        for nm in (b'x', None, 5, ('',)):
            for meth in ('lookup', 'lookup1', 'queryAdapter', 'adapter_hook', 'queryMultiAdapter'):
                def call(r=r, meth=meth, nm=nm):
                    args = {'lookup': ((I,), P, nm), 'lookup1': (I, P, nm), 'queryAdapter': (A(), P, nm), 'adapter_hook': (P, A(), nm),
                            'queryMultiAdapter': ((A(),), P, nm)}[meth]
                    return getattr(r, meth)(*args)
                add('%s %s name=%r' % (rn, meth, nm), call)
            add('%s register name=%r' % (rn, nm), lambda r=r, nm=nm: r.register((I,), P, nm, 'x'))
        add(rn + ' lookup generator required', lambda r=r: r.lookup((x for x in (I,)), P, ''))
        add(rn + ' lookupAll generator required', lambda r=r: sorted(k for k, v in r.lookupAll((x for x in (I,)), P)))
        add(rn + ' subscriptions generator required', lambda r=r: len(r.subscriptions((x for x in (I,)), P)))
        add(rn + ' lookup list required', lambda r=r: r.lookup([I], P, ''))
        add(rn + ' lookup non-sequence required', lambda r=r: r.lookup(5, P, ''))
        add(rn + ' lookupAll non-sequence required', lambda r=r: r.lookupAll(5, P))
        add(rn + ' subscriptions non-sequence required', lambda r=r: r.subscriptions(5, P))
        add(rn + ' lookup keyword arguments', lambda r=r: r.lookup(required=(I,), provided=P, name='', default=1))
        add(rn + ' lookup1 keyword arguments', lambda r=r: r.lookup1(required=I, provided=P, name='', default=1))
        add(rn + ' adapter_hook keyword arguments', lambda r=r: r.adapter_hook(provided=P, object=A(), name='', default=1))
        add(rn + ' lookup too few arguments', lambda r=r: r.lookup((I,)))
        add(rn + ' lookup too many arguments', lambda r=r: r.lookup((I,), P, '', None, 1))
        add(rn + ' lookup unhashable required element', lambda r=r: r.lookup(([],), P, ''))
        add(rn + ' lookup1 unhashable required', lambda r=r: r.lookup1([], P, ''))
        add(rn + ' lookup unhashable provided', lambda r=r: r.lookup((I,), [], ''))
        add(rn + ' lookupAll unhashable provided', lambda r=r: r.lookupAll((I,), []))
        add(rn + ' subscriptions unhashable provided', lambda r=r: r.subscriptions((I,), []))
        add(rn + ' lookup None provided', lambda r=r: r.lookup((I,), None, ''))
        add(rn + ' subscriptions None provided', lambda r=r: len(r.subscriptions((I,), None)))
        add(rn + ' lookup required contains None', lambda r=r: r.lookup((None,), P, ''))
        add(rn + ' lookup required contains int', lambda r=r: r.lookup((3,), P, ''))
        add(rn + ' lookup required contains class', lambda r=r: r.lookup((A,), P, ''))
        add(rn + ' changed() then lookup', lambda r=r: (r.changed(r), r.lookup((I,), P, ''))[1])
        add(rn + ' lookup.changed(None) then lookup', lambda r=r: (r._v_lookup.changed(None), r.lookup((I,), P, ''))[1])
        add(rn + ' register then lookup', lambda r=r: (r.register((J,), P, 'z', 'vz'), r.lookup((J,), P, 'z'))[1])
        add(rn + ' unregister then lookup', lambda r=r: (r.unregister((J,), P, 'z'), r.lookup((J,), P, 'z'))[1])
    # ---- declarations with odd arguments --------------------------------------------------------------------
    add('directlyProvides(int)', lambda: directlyProvides(5, I))
    add('directlyProvides(obj, non-interface)', lambda: directlyProvides(A(), 5))
    add('alsoProvides(obj, None)', lambda: alsoProvides(A(), None))
    add('noLongerProvides(obj, class-provided)', lambda: noLongerProvides(A(), I))
    add('noLongerProvides(obj, Declaration)', lambda: noLongerProvides(A(), Declaration(I)))
    add('classImplements(non-class)', lambda: classImplements(5, I))
    add('Provides() no args', lambda: Provides())
    add('Provides(cls) only', lambda: Provides(A) is not None)
    add('ClassProvides()', lambda: ClassProvides())
    add('providedBy(None)', lambda: providedBy(None))
    add('providedBy(type)', lambda: providedBy(type))
    add('providedBy(super)', lambda: providedBy(super(A, A())))
    add('implementedBy(super)', lambda: implementedBy(super(A, A())))
    add('providedBy(5)', lambda: providedBy(5))
    add('InterfaceClass bad bases', lambda: InterfaceClass('X', (object,), {}))
    add('InterfaceClass concrete attr', lambda: InterfaceClass('X', (Interface,), {'a': 5}))
    return cat


def norm(r):
    if isinstance(r, (bool, int, str, type(None))):
        return repr(r)
    if isinstance(r, tuple):
        return 'tuple:' + ','.join(norm(x) for x in r[:4])
    if isinstance(r, list):
        return 'list:' + ','.join(norm(x) for x in r[:6])
    if hasattr(r, '__sro__'):
        return 'spec:' + ','.join(str(getattr(x, '__name__', '?')) for x in r.__sro__)
    return type(r).__name__


def execute(program, ctx, mode):
    cat = build_catalogue()
    ctx.probe('catalogue-size', len(cat))
    for step, op in enumerate(program['ops']):
        ctx.step = step
        ctx.nops += 1
        label, thunk = cat[op['i'] % len(cat)]
        try:
            res = norm(thunk())
        except BaseException as e:    # noqa
            res = 'raise:' + type(e).__name__
        ctx.state(op['i'] % len(cat))
        ctx.log(label, '->', res)


def describe(program):
    return {'ops': program['ops'][:10]}


def run(req, item):
    return standard_run(generate, execute, req, item, describe)
