"""Machine `decl` -- declaration histories (C01, C19).

World: interface DAG, class DAG (multiple inheritance), functions used as
factories, instances, classes used as objects.  History: every public
declaration call, subclass / instance creation, queries, and the simulator's
faults (collect now, drop my last reference, permute notification order).

Oracle: DeclModel (written from the documentation, no caches) yields for every
class and object a lower bound (everything that *must* be reported) and an
upper bound (must + declarations that were redundant when made and *may* have
been dropped); the implementation has to lie between, for all four query
forms, which also have to agree with each other.
"""
import gc
import random

from ..prng import Streams, h64, pick
from .base import standard_run, Stop

MACHINE = 'decl'


# --------------------------------------------------------------------------
# generation (pure python, no zope import)
# --------------------------------------------------------------------------

def generate(seed, mode):
    S = Streams(seed)
    w = S('world')
    o = S('ops')
    big = h64(seed, 'big-world') % 12 == 0        # swarm knob: now and then wider and deeper hierarchies
    nI = w.randint(3, 6) if not big else w.randint(7, 10)
    ibases = []
    for i in range(nI):
        k = w.randint(0, min(i, 2 if not big else 4))
        ibases.append(sorted(w.sample(range(i), k)) if i else [])
    ncls = w.randint(1, 3) if not big else w.randint(4, 6)
    classes = []
    for c in range(ncls):
        k = w.randint(0, min(c, 2 if not big else 3))
        classes.append(w.sample(range(c), k) if c else [])
    nf = w.randint(0, 2)
    cflags = [{'meta': w.random() < 0.25, 'slots': w.random() < 0.2} for _ in range(ncls)]
    meta_impl = w.sample(range(nI), w.randint(1, 2))
    # swarm knobs
    chk_p = w.choice([100, 100, 60, 30, 0])
    gc_rate = w.choice([0.0, 0.02, 0.05, 0.15])
    perm_rate = w.choice([0.0, 0.0, 0.05])
    narrow_bias = w.random() < 0.5      # "narrow the class right after an instance declaration"
    want_super = mode.get('super', False)
    nops = w.randint(4, 25)
    specarg_world = h64(seed, 'class-specifications-as-arguments') % 3 == 0
    typedecl_world = h64(seed, 'declarations-for-the-builtin-type') % 4 == 0
    reenter_decl_world = h64(seed, 're-entrant-declarations') % 3 == 0
    ops = []

    def xs(kmax=2, allow_empty=False):
        if allow_empty and o.random() < 0.15:
            return []
        return o.sample(range(nI), o.randint(1, min(kmax, nI)))

    last_ob_decl = None
    last_xs = None
    for _ in range(nops):
        k = o.getrandbits(30)
        r = o.random()
        if o.random() < gc_rate:
            ops.append({'op': 'gc', 'k': k})
        if o.random() < perm_rate:
            ops.append({'op': 'perm', 'kind': o.randrange(2), 'i': o.randrange(16), 'ps': o.getrandbits(30), 'k': k})
        if narrow_bias and last_ob_decl is not None and o.random() < 0.5:
            ops.append({'op': 'conly', 'c': last_ob_decl, 'byob': True, 'xs': xs(2, True), 'v': o.randrange(2), 'k': k})
            if o.random() < 0.6 and last_xs:
                # ... and then the same declaration again on a sibling instance, while the first one is still alive:
                # the request that a shared (cached) instance declaration would answer
                ops.append({'op': 'dprov', 'o': o.randrange(16), 'sib_of': last_ob_decl, 'xs': list(last_xs), 'k': k})
            last_ob_decl = None
            continue
        last_ob_decl = None
        if r < 0.09:
            ops.append({'op': 'newclass', 'bases': [o.randrange(16) for _ in range(o.randint(0, 2))],
                        'xs': xs(2, True), 'v': o.randrange(3), 'meta': o.random() < 0.25, 'slots': o.random() < 0.2, 'k': k})
        elif r < 0.12:
            # a new undeclared subclass whose first ever query goes through an instance (or a super proxy of it)
            ops.append({'op': 'newsubq', 'bases': [o.randrange(16) for _ in range(o.randint(1, 2))], 'k': k})
        elif r < 0.21:
            ops.append({'op': 'newob', 'c': o.randrange(16), 'k': k})
        elif r < 0.38:
            ops.append({'op': 'cimpl', 'c': o.randrange(16), 'xs': xs(), 'v': o.randrange(4), 'k': k})
            if reenter_decl_world and o.random() < 0.3:
                # fault `cb-reenter` inside a declaration: a dependent of the class's specification declares something for the
                # class itself or one of its ancestors from inside the change notification
                ops[-1]['reenter'] = {'t': o.randrange(16), 'x': o.randrange(nI)}
        elif r < 0.47:
            ops.append({'op': 'conly', 'c': o.randrange(16), 'xs': xs(2, True), 'v': o.randrange(2), 'k': k})
        elif r < 0.61:
            ob = o.randrange(16)
            ops.append({'op': 'dprov', 'o': ob, 'xs': xs(3, True), 'k': k})
            if specarg_world and o.random() < 0.35:
                # a class specification among the arguments (`directlyProvides(ob, implementedBy(K))`, or the wrapper idiom
                # `alsoProvides(wrapper, providedBy(context))`): the object then follows that class's declarations, until the
                # next alsoProvides / noLongerProvides rebuilds the declaration from the interfaces the class has at that moment
                ops[-1]['kspec'] = o.randrange(16)
                ops[-1]['kpos'] = o.randrange(4)
                if o.random() < 0.6:
                    ops.append({'op': o.choice(['aprov', 'nprov']), 'o': ob, 'xs': xs(), 'x': o.randrange(nI), 'k': k})
            last_ob_decl = ob
            last_xs = ops[-1].get('xs')
        elif r < 0.71:
            ob = o.randrange(16)
            ops.append({'op': 'aprov', 'o': ob, 'xs': xs(), 'k': k})
            last_ob_decl = ob
            last_xs = ops[-1]['xs']
        elif r < 0.78:
            ops.append({'op': 'nprov', 'o': o.randrange(16), 'x': o.randrange(nI), 'k': k})
        elif r < 0.84:
            ops.append({'op': 'cprov', 'c': o.randrange(16), 'xs': xs(2, True), 'v': o.randrange(2), 'k': k})
        elif r < 0.87:
            ops.append({'op': 'caprov', 'c': o.randrange(16), 'xs': xs(), 'k': k})
        elif r < 0.89:
            ops.append({'op': 'cnprov', 'c': o.randrange(16), 'x': o.randrange(nI), 'k': k})
        elif r < 0.91 and nf:
            ops.append({'op': 'fimpl', 'f': o.randrange(16), 'xs': xs(2, True), 'k': k})
        elif r < 0.925 and typedecl_world and o.random() < 0.6:
            # a declaration for the builtin `type` itself, made after classes exist: every class is an instance of it
            ops.append({'op': 'timpl', 'xs': xs(1), 'k': k})
        elif r < 0.925:
            # an *instance* declared as a factory (implementer(...)(ob) stores what calling it gives in ob.__implemented__):
            # says nothing about what ob provides, nor about what super proxies of ob see
            ops.append({'op': 'obimpl', 'o': o.randrange(16), 'xs': xs(2, True), 'k': k})
        elif r < 0.95 and o.random() < 0.4:
            # fault `address-reuse`: a short-lived subclass with declarations of its own and an instance is queried, dropped and
            # collected; another short-lived class (other bases, other declarations) takes its place -- and, if the allocator
            # plays along, its address -- and is queried
            ops.append({'op': 'churn', 'b1': [o.randrange(16) for _ in range(o.randint(1, 2))], 'xs1': xs(2, True),
                        'b2': [o.randrange(16) for _ in range(o.randint(1, 2))], 'xs2': xs(2, True), 'k': k})
        elif r < 0.95:
            ops.append({'op': 'drop', 'o': o.randrange(16), 'k': k})
        else:
            ops.append({'op': 'query', 'kind': o.randrange(3), 'i': o.randrange(16), 'k': k})
    return {'machine': MACHINE, 'seed': seed,
            'world': {'ibases': ibases, 'classes': classes, 'cflags': cflags, 'meta_impl': meta_impl, 'nfuncs': nf, 'chk_p': chk_p,
                      'super': want_super, 'reg': want_super},
            'ops': ops}


# --------------------------------------------------------------------------
# reference model
# --------------------------------------------------------------------------

class DeclModel:
    def __init__(self, ibases):
        self.ibases = ibases
        self.ext = []
        for i, bs in enumerate(ibases):
            s = {i}
            for b in bs:
                s |= self.ext[b]
            self.ext.append(s)
        self.classes = []
        self.obs = []
        self.funcs = []

    def clos(self, xs):
        s = set()
        for x in xs:
            s |= self.ext[x]
        return s

    def L(self, c):
        m = self.classes[c]
        s = self.clos(m['must'])
        if not m['only']:
            for b in m['bases']:
                s |= self.L(b)
        return s

    def U(self, c):
        m = self.classes[c]
        s = self.clos(m['must'] + m['may'])
        if not m['only']:
            for b in m['bases']:
                s |= self.U(b)
        return s

    @staticmethod
    def classify(xs, hi):
        must, may = [], []
        for x in xs:
            if x in hi:
                if x not in may:
                    may.append(x)
            elif x not in must:
                must.append(x)
        return must, may

    def new_class(self, bases):
        self.classes.append(dict(bases=list(bases), only=False, must=[], may=[], dmust=[], dmay=[], ver=0))
        return len(self.classes) - 1

    def bump(self, c):
        self.classes[c]['ver'] += 1

    def version(self, c):
        m = self.classes[c]
        return (m['ver'],) + tuple(self.version(b) for b in m['bases'])

    def class_implements(self, c, xs):
        m = self.classes[c]
        hi = self.U(c)
        must, may = self.classify(xs, hi)
        for x in must:
            if x not in m['must']:
                m['must'].append(x)
        for x in may:
            if x not in m['may'] and x not in m['must']:
                m['may'].append(x)
        self.bump(c)

    def class_only(self, c, xs):
        m = self.classes[c]
        m['only'] = True
        m['must'] = list(dict.fromkeys(xs))
        m['may'] = []
        self.bump(c)

    def flat(self, c):
        """the interfaces iterating implementedBy(class c) yields: declared along the class chain -> (certainly, possibly)"""
        m = self.classes[c]
        musts, mays = list(m['must']), list(m['may'])
        if not m['only']:
            for b in m['bases']:
                a, b_ = self.flat(b)
                musts += a
                mays += b_
        return musts, mays

    def ancestors(self, c):
        s = {c}
        for b in self.classes[c]['bases']:
            s |= self.ancestors(b)
        return s

    def ob_lo(self, m):
        s = self.L(m['cls']) | self.clos(m['must'])
        for c in m.get('kmust', ()):
            s |= self.L(c)
        return s

    def ob_hi(self, m):
        s = self.U(m['cls']) | self.clos(m['must'] + m['may'])
        for c in list(m.get('kmust', ())) + list(m.get('kmay', ())):
            s |= self.U(c)
        return s

    def direct_hi(self, m):
        s = self.clos(m['must'] + m['may'])
        for c in list(m.get('kmust', ())) + list(m.get('kmay', ())):
            s |= self.U(c)
        return s

    def expand_refs(self, m):
        """alsoProvides / noLongerProvides rebuild the declaration from the *interfaces* of what was declared directly: a class
        specification among them is replaced by the interfaces its class has at that moment"""
        for c in m.get('kmust', ()):
            a, b = self.flat(c)
            m['must'] = m['must'] + [x for x in a if x not in m['must']]
            m['may'] = m['may'] + [x for x in b if x not in m['may']]
        for c in m.get('kmay', ()):
            a, b = self.flat(c)
            m['may'] = m['may'] + [x for x in a + b if x not in m['may']]
        m['kmust'], m['kmay'] = [], []

    def directly(self, m, cls_hi, xs, kspec=None):
        m['must'], m['may'] = self.classify(xs, cls_hi)
        m['kmust'], m['kmay'] = [], []
        if kspec is not None:
            # certainly redundant when made (dropped, perhaps) if the class is the object's own class or one of its ancestors
            (m['kmay'] if kspec in self.ancestors(m['cls']) else m['kmust']).append(kspec)

    def also(self, m, cls_hi, xs):
        if m.get('kmust') or m.get('kmay'):
            self.expand_refs(m)
        nm, ny = self.classify(m['must'] + list(xs), cls_hi)
        for y in m['may']:
            if y not in nm and y not in ny:
                ny.append(y)
        m['must'], m['may'] = nm, ny

    def nolonger(self, m, cls_hi, x):
        if m.get('kmust') or m.get('kmay'):
            self.expand_refs(m)
        keep = lambda ys: [y for y in ys if x not in self.ext[y]]
        nm, ny = self.classify(keep(m['must']), cls_hi)
        for y in keep(m['may']):
            if y not in nm and y not in ny:
                ny.append(y)
        m['must'], m['may'] = nm, ny


# --------------------------------------------------------------------------
# execution against the real library
# --------------------------------------------------------------------------

def execute(program, ctx, mode):
    from zope.interface import (Interface, implementer, implementer_only, classImplements,
                                classImplementsOnly, classImplementsFirst, directlyProvides,
                                alsoProvides, noLongerProvides, provider, providedBy,
                                implementedBy, directlyProvidedBy)
    from zope.interface.interface import InterfaceClass, adapter_hooks
    from zope.interface import declarations as zd
    from zope.interface.adapter import AdapterRegistry

    # Fault kind cb-raise in a change notification: in one world in three every class specification has a dependent that can be
    # armed to raise once from its changed() callback.  The declaration call then fails half-way through the propagation; the
    # caller (the wrappers below) repeats the very same call, which succeeds -- and after a successful declaration call
    # everything must be exact again, also what the failed propagation had not reached.
    class Injected(Exception):
        pass
    bombs = []
    bomb_world = h64(program.get('seed') or 0, 'bomb-world') % 3 == 0

    class Bomb:
        armed = False

        def changed(self, originally_changed):
            if self.armed:
                self.armed = False
                ctx.fault('cb-raise-in-change-notification')
                raise Injected()

    def retrying(fn):
        def wrapper(*a):
            try:
                return fn(*a)
            except Injected:
                ctx.probe('declaration-repeated-after-a-failed-notification')
                return fn(*a)
        return wrapper
    _implementer, _implementer_only = implementer, implementer_only
    classImplements = retrying(classImplements)
    classImplementsOnly = retrying(classImplementsOnly)
    classImplementsFirst = retrying(classImplementsFirst)

    def implementer(*ifaces):          # noqa: F811
        return retrying(_implementer(*ifaces))

    def implementer_only(*ifaces):     # noqa: F811
        return retrying(_implementer_only(*ifaces))

    W = program['world']
    ibases = W['ibases']
    M = DeclModel(ibases)
    nI = len(ibases)
    ifs = []
    for i, bs in enumerate(ibases):
        ifs.append(InterfaceClass('I%d' % i, tuple(ifs[b] for b in bs) or (Interface,), {}, __module__='zisim.w'))
    idx_of = {id(I): i for i, I in enumerate(ifs)}
    classes = []
    obs = []
    funcs = []
    chk_p = W.get('chk_p', 100)
    want_super = W.get('super', False)
    prov_ver = {}

    def names(spec_iter):
        out = []
        for i in spec_iter:
            j = idx_of.get(id(i))
            out.append('I%d' % j if j is not None else ('Interface' if i is Interface else '?' + getattr(i, '__name__', '?')))
        return out

    def as_set(spec):
        return {idx_of[id(i)] for i in spec.flattened() if id(i) in idx_of}

    meta_impl = [x % nI for x in (W.get('meta_impl') or [])]
    type_impl = []      # declared for the builtin `type` during the history (op `timpl`)
    # one world in five: classes and instances that are false in a boolean context (metaclass __bool__, __len__ == 0) --
    # legal, if unusual, and exactly what an `if cls:` / `if ob:` slip would trip over
    falsy_world = h64(program.get('seed') or 0, 'falsy-world') % 5 == 0
    BaseMeta = type
    if falsy_world:
        BaseMeta = type('FMeta', (type,), {'__module__': 'zisim.w', '__bool__': lambda cls: False, '__len__': lambda cls: 0})
        ctx.probe('falsy-classes-and-instances')
    Meta = type('Meta', (BaseMeta,), {'__module__': 'zisim.w'})
    if meta_impl:
        implementer(*[ifs[x] for x in meta_impl])(Meta)

    # Re-entrant observer (want_super worlds, one in two): a dependent of a class specification that queries super proxies
    # of that class's instances from inside its change notification.  When a specification notifies its dependents its own
    # resolution order is already recomputed, so at the *last* notification within one declaration call every ancestor is
    # final and the proxies must already show the final state (DESIGN.md 3/C19).
    keepalive = []
    spies = []
    spy_world = want_super and h64(program.get('seed') or 0, 'spy-world') % 2 == 0

    class Spy:
        def __init__(self, c):
            self.c = c
            self.seen = {}

        def changed(self, originally_changed):
            cls = classes[self.c]
            for o, ob in enumerate(obs):
                if ob is None or type(ob) is not cls:
                    continue
                mro = cls.__mro__
                for kk in range(len(mro) - 1):
                    self.seen[(o, kk)] = as_set(providedBy(super(mro[kk], ob)))
            ctx.fault('cb-reenter-query-in-change-notification')

    def check_spies():
        for spy in spies:
            seen, spy.seen = spy.seen, {}
            for (o, kk), got in sorted(seen.items()):
                ob = obs[o] if o < len(obs) else None
                if ob is None:
                    continue
                mro = type(ob).__mro__
                rest = [classes.index(x) for x in mro[kk + 1:] if x in classes]
                slo, shi = set(), set()
                for cc in rest:
                    slo |= M.L(cc)
                    shi |= M.U(cc)
                ctx.probe('super-query-inside-notification')
                if not (slo <= got <= shi):
                    ctx.violation('C19', 'super-stale-in-notification', 'C19|providedBy(super)|stale-inside-change-notification|%s' % (
                        'missing' if slo - got else 'extra'), {'ob': o, 'k': kk, 'lo': sorted(slo), 'got': sorted(got), 'hi': sorted(shi)})

    def mk_class(bases, meta=False, slots=False):
        # classes with a __provides__ slot stay leaves: the slot's descriptor would be inherited as the class
        # attribute __provides__ by every subclass, and class-level declarations are not supported on them
        bases = [b for b in bases if not M.classes[b].get('slots') or M.classes[b].get('builtin')]
        for attempt in (bases, bases[:1], []):
            try:
                ns = {'__module__': 'zisim.w'}
                if slots and not attempt:
                    ns['__slots__'] = ('__provides__', '__weakref__')       # instances without a __dict__
                if falsy_world:
                    ns['__len__'] = lambda self: 0
                cls = (Meta if (meta and meta_impl) else BaseMeta)('K%d' % len(classes), tuple(classes[b] for b in attempt) or (object,), ns)
                break
            except TypeError:
                continue
        classes.append(cls)
        c = M.new_class(attempt)
        if spy_world:
            spy = Spy(c)
            spies.append(spy)
            implementedBy(cls).subscribe(spy)
        if bomb_world:
            b_ = Bomb()
            bombs.append(b_)
            implementedBy(cls).subscribe(b_)
        M.classes[c]['slots'] = '__slots__' in ns
        M.classes[c]['meta'] = type(cls) is Meta        # (a metaclass is inherited from the bases: Python's rule, not the library's)
        if type(cls) is Meta:
            ctx.probe('class-with-declaring-metaclass')
        if '__slots__' in ns:
            ctx.probe('class-with-__provides__-slot')
        return c

    # one world in four: the builtin type `list` is class 0, with declarations of its own (they live in
    # BuiltinImplementationSpecifications, not on the type); other classes may inherit from it.  Instances of the builtin
    # itself cannot carry declarations and the type cannot carry class-level ones, so those operations go elsewhere.
    if h64(program.get('seed') or 0, 'builtin-base-world') % 4 == 0:
        bimpl = [h64(program.get('seed') or 0, 'builtin-impl') % nI]
        classImplements(list, *[ifs[x] for x in bimpl])
        classes.append(list)
        cb_ = M.new_class([])
        M.class_implements(cb_, bimpl)
        M.classes[cb_]['slots'] = True          # (same restrictions as a class with a __provides__ slot: a leaf for class-level checks)
        M.classes[cb_]['builtin'] = True
        ctx.probe('builtin-type-with-declarations')
        if spy_world:
            spy = Spy(cb_)
            spies.append(spy)
            implementedBy(list).subscribe(spy)
    for ci, bs in enumerate(W['classes']):
        fl = (W.get('cflags') or [{}] * (ci + 1))[ci] if ci < len(W.get('cflags') or []) else {}
        mk_class([b % len(classes) for b in bs] if classes else [], fl.get('meta', False), fl.get('slots', False))
    for f in range(W.get('nfuncs', 0)):
        def fn(*a):
            return None
        fn.__name__ = 'f%d' % f
        fn.__module__ = 'zisim.w'
        funcs.append(fn)
        M.funcs.append(dict(must=None))

    reg = None
    P = None
    if W.get('reg'):
        P = InterfaceClass('P', (Interface,), {}, __module__='zisim.w')
        reg = AdapterRegistry()
        for i, I in enumerate(ifs):
            reg.register((I,), P, '', (lambda n: (lambda ob: ('made', n, ob)))(i))

    def selected(k, kind, i):
        return chk_p >= 100 or (h64(k, kind, i) % 100) < chk_p

    def check(k, final=False):
        for c, cls in enumerate(classes):
            if not (final or selected(k, 'c', c)):
                continue
            lo, hi = M.L(c), M.U(c)
            got = as_set(implementedBy(cls))
            ctx.state('cls', len(M.classes[c]['bases']), M.classes[c]['only'], tuple(sorted(lo)), tuple(sorted(hi)), tuple(sorted(got)))
            if not (lo <= got <= hi):
                missing = sorted(lo - got)
                extra = sorted(got - hi)
                ctx.violation('C01', 'implementedBy-bounds',
                              'C01|implementedBy|%s' % ('missing' if missing else 'extra'),
                              {'class': c, 'lo': sorted(lo), 'got': sorted(got), 'hi': sorted(hi)})
            for i, I in enumerate(ifs):
                if I.implementedBy(cls) != (i in got):
                    ctx.violation('C01', 'I.implementedBy-disagrees', 'C01|I.implementedBy!=implementedBy',
                                  {'class': c, 'iface': i})
            m = M.classes[c]
            if m.get('slots'):
                continue        # cls.__provides__ is the slot descriptor: no class-level provides on such classes
            dlo, dhi = M.clos(m['dmust']), M.clos(m['dmust'] + m['dmay'])
            if m.get('meta'):
                # a class is an instance of its metaclass: it also provides what the metaclass implements
                dlo = dlo | M.clos(meta_impl)
                dhi = dhi | M.clos(meta_impl)
            if type_impl:
                # ... and every class is an instance of `type` (what was declared for it, whenever that was)
                dlo = dlo | M.clos(type_impl)
                dhi = dhi | M.clos(type_impl)
            got = as_set(providedBy(cls))
            if not (dlo <= got <= dhi):
                ctx.violation('C01', 'providedBy(class)-bounds',
                              'C01|providedBy(class)|%s' % ('missing' if dlo - got else 'extra'),
                              {'class': c, 'lo': sorted(dlo), 'got': sorted(got), 'hi': sorted(dhi)})
            for i, I in enumerate(ifs):
                if I.providedBy(cls) != (i in got):
                    ctx.violation('C01', 'I.providedBy(class)-disagrees', 'C01|I.providedBy(class)!=providedBy',
                                  {'class': c, 'iface': i})
        for f, fn in enumerate(funcs):
            fm = M.funcs[f]['must']
            if fm is None or not (final or selected(k, 'f', f)):
                continue
            got = as_set(implementedBy(fn))
            if got != M.clos(fm):
                ctx.violation('C01', 'implementedBy(function)', 'C01|implementedBy(function)',
                              {'func': f, 'want': sorted(M.clos(fm)), 'got': sorted(got)})
        for o, ob in enumerate(obs):
            if ob is None or not (final or selected(k, 'o', o)):
                continue
            m = M.obs[o]
            c = m['cls']
            lo = M.ob_lo(m)
            hi = M.ob_hi(m)
            got = as_set(providedBy(ob))
            ctx.state('ob', tuple(sorted(lo)), tuple(sorted(hi)), tuple(sorted(got)))
            if not (lo <= got <= hi):
                missing = sorted(lo - got)
                direct_missing = bool(set(missing) & M.clos(m['must']))
                ctx.violation('C01', 'providedBy-bounds',
                              'C01|providedBy(instance)|%s' % (('missing-direct' if direct_missing else 'missing-class') if missing else 'extra'),
                              {'ob': o, 'class': c, 'lo': sorted(lo), 'got': sorted(got), 'hi': sorted(hi)})
            for i, I in enumerate(ifs):
                if I.providedBy(ob) != (i in got):
                    ctx.violation('C01', 'I.providedBy-disagrees', 'C01|I.providedBy!=providedBy',
                                  {'ob': o, 'iface': i})
            dp = as_set(directlyProvidedBy(ob))
            if not (dp <= M.direct_hi(m)):
                ctx.violation('C01', 'directlyProvidedBy-extra', 'C01|directlyProvidedBy|extra',
                              {'ob': o, 'got': sorted(dp)})
            if want_super:
                check_super(o, ob)

    class SuperSub(super):
        pass

    def check_super(o, ob, start=0):
        mro = type(ob).__mro__
        m = M.obs[o]
        idx = list(range(len(mro) - 1))
        idx = idx[start % len(idx):] + idx[:start % len(idx)] if idx else idx
        for kk in idx:
            C = mro[kk]
            rest = [classes.index(x) for x in mro[kk + 1:] if x in classes]
            slo, shi = set(), set()
            for cc in rest:
                slo |= M.L(cc)
                shi |= M.U(cc)
            # (every other proxy is an instance of a subclass of `super`, as cooperative frameworks define them)
            sup = (SuperSub if (kk + o) % 2 else super)(C, ob)
            g1 = as_set(providedBy(sup))
            g2 = as_set(implementedBy(sup))
            ctx.probe('super-query')
            ctx.state('super', kk, tuple(sorted(slo)), tuple(sorted(g1)))
            if g1 != g2:
                ctx.violation('C19', 'super-providedBy!=implementedBy', 'C19|providedBy(super)!=implementedBy(super)',
                              {'ob': o, 'k': kk, 'providedBy': sorted(g1), 'implementedBy': sorted(g2)})
            if not (slo <= g1 <= shi):
                ctx.violation('C19', 'super-bounds', 'C19|providedBy(super)|%s' % ('missing' if slo - g1 else 'extra'),
                              {'ob': o, 'k': kk, 'lo': sorted(slo), 'got': sorted(g1), 'hi': sorted(shi)})
            for i, I in enumerate(ifs):
                if I.providedBy(sup) != (i in g1):
                    ctx.violation('C19', 'I.providedBy(super)-disagrees', 'C19|I.providedBy(super)!=providedBy(super)',
                                  {'ob': o, 'k': kk, 'iface': i})
            if reg is not None:
                dflt = object()
                for meth in ('queryAdapter', 'adapter_hook', 'queryMultiAdapter'):
                    if meth == 'queryAdapter':
                        r = reg.queryAdapter(sup, P, '', dflt)
                    elif meth == 'adapter_hook':
                        r = reg.adapter_hook(P, sup, '', dflt)
                    else:
                        r = reg.queryMultiAdapter((sup,), P, '', dflt)
                    if meth == 'queryAdapter':
                        # calling the interface with the registry's hook installed is the same question
                        adapter_hooks.append(reg.adapter_hook)
                        try:
                            r2 = P(sup, dflt)
                        finally:
                            adapter_hooks.remove(reg.adapter_hook)
                        if (r2 is dflt) != (r is dflt) or (r2 is not dflt and (r2[1] != r[1] or r2[2] is not r[2])):
                            ctx.violation('C19', 'super-call', 'C19|P(super)|differs-from-queryAdapter(super)',
                                          {'ob': o, 'k': kk, 'call': repr(r2)[:80], 'query': repr(r)[:80]})
                    if r is dflt:
                        if slo:
                            ctx.violation('C19', 'super-adapt-none', 'C19|%s(super)|no-adapter' % meth,
                                          {'ob': o, 'k': kk, 'lo': sorted(slo)})
                    else:
                        if not (isinstance(r, tuple) and r[0] == 'made'):
                            ctx.violation('C19', 'super-adapt-odd', 'C19|%s(super)|odd-result' % meth, {'ob': o})
                        if r[2] is not ob:
                            ctx.violation('C19', 'super-adapt-arg', 'C19|%s(super)|factory-got-proxy' % meth,
                                          {'ob': o, 'k': kk})
                        if r[1] not in shi:
                            ctx.violation('C19', 'super-adapt-wrong', 'C19|%s(super)|adapter-outside-remainder' % meth,
                                          {'ob': o, 'k': kk, 'picked': r[1], 'hi': sorted(shi)})
                        # the adapter chosen is the one for the first interface of the
                        # super specification's own resolution order
                        first = [idx_of[id(i)] for i in providedBy(sup).__iro__ if id(i) in idx_of][:1]
                        if first and r[1] != first[0]:
                            ctx.violation('C19', 'super-adapt-order', 'C19|%s(super)|not-most-specific' % meth,
                                          {'ob': o, 'k': kk, 'picked': r[1], 'first': first[0]})

    def ob_decl_probe(o, before_ids):
        p = getattr(obs[o], '__provides__', None)
        if p is None:
            return
        c = M.obs[o]['cls']
        v = M.version(c)
        if id(p) in before_ids:
            ctx.probe('shared-provides-hit')
            if prov_ver.get(id(p), v) != v:
                ctx.probe('stale-shared-declaration-window')
        else:
            prov_ver[id(p)] = v

    try:
        def prime(k):
            """a few single questions put right before an operation; the same questions come first right after it"""
            rng = random.Random(k ^ 0x5bd1)
            qs = []
            for _ in range(3):
                i = rng.randrange(nI)
                live_obs = [o for o, ob in enumerate(obs) if ob is not None]
                if live_obs and rng.random() < 0.6:
                    o = live_obs[rng.randrange(len(live_obs))]
                    ifs[i].providedBy(obs[o])
                    qs.append(('ob', o, i))
                elif classes:
                    c = rng.randrange(len(classes))
                    ifs[i].implementedBy(classes[c])
                    qs.append(('cls', c, i))
            return qs

        def reask(qs):
            for what, x, i in qs:
                if what == 'ob':
                    if x >= len(obs) or obs[x] is None:
                        continue
                    m = M.obs[x]
                    lo = M.ob_lo(m)
                    hi = M.ob_hi(m)
                    got = bool(ifs[i].providedBy(obs[x]))
                else:
                    lo, hi = M.L(x), M.U(x)
                    got = bool(ifs[i].implementedBy(classes[x]))
                ctx.probe('primed-question')
                if (i in lo and not got) or (i not in hi and got):
                    ctx.violation('C01', 'primed', 'C01|I.%s|asked-right-before-and-right-after-the-operation|%s' % (
                        'providedBy(instance)' if what == 'ob' else 'implementedBy(class)', 'false-negative' if i in lo else 'false-positive'),
                        {'target': x, 'iface': i, 'lo': sorted(lo), 'hi': sorted(hi)})

        for step, op in enumerate(program['ops']):
            ctx.step = step
            ctx.nops += 1
            name = op['op']
            k = op.get('k', 0)
            primed = prime(k) if name not in ('gc', 'perm', 'query') else []
            for b_ in bombs:
                b_.armed = False
            if bombs and name in ('cimpl', 'conly') and h64(k, 'arm-bomb') % 3 == 0 and not op.get('reenter'):
                # (not together with a re-entrant declaration: a notification that fails *inside* the nested declaration
                # leaves part of the graph untold, and nothing says which part)
                bombs[h64(k, 'which-bomb') % len(bombs)].armed = True
            if name == 'gc':
                n = gc.collect()
                ctx.fault('gc')
                ctx.log(step, 'gc')
            elif name == 'perm':
                pool = list(ifs) if op['kind'] == 0 else [implementedBy(c) for c in classes]
                spec = pool[op['i'] % len(pool)]
                d = spec._dependents
                if d:
                    items = list(d.data.items())
                    random.Random(op['ps']).shuffle(items)
                    d.data.clear()
                    d.data.update(items)
                    ctx.fault('perm')
                ctx.log(step, 'perm', op['kind'], op['i'] % len(pool))
            elif name == 'newclass':
                bases = [b % len(classes) for b in op['bases']] if classes else []
                bases = list(dict.fromkeys(bases))
                c = mk_class(bases, op.get('meta', False), op.get('slots', False))
                xs = [x % nI for x in op['xs']]
                v = op['v']
                if v == 1 and xs:
                    M.class_implements(c, xs)
                    implementer(*[ifs[x] for x in xs])(classes[c])
                elif v == 2:
                    M.class_only(c, xs)
                    implementer_only(*[ifs[x] for x in xs])(classes[c])
                    ctx.probe('only-form')
                ctx.log(step, 'newclass', c, M.classes[c]['bases'], xs, v)
            elif name == 'newsubq':
                if not classes:
                    continue
                bases = list(dict.fromkeys(b % len(classes) for b in op['bases']))
                c = mk_class(bases)
                obs.append(classes[c]())
                M.obs.append(dict(cls=c, must=[], may=[]))
                o_new = len(obs) - 1
                ctx.probe('first-query-through-instance')
                ctx.log(step, 'newsubq', c, M.classes[c]['bases'], o_new)
                # nothing has asked implementedBy(new class) yet
                if want_super:
                    # start at a PRNG-chosen class of the MRO: the proxy for a class in the middle is asked before
                    # anything computed the new class's own specification
                    check_super(o_new, obs[o_new], start=1 + (k % 3))
                else:
                    lo, hi = M.L(c), M.U(c)
                    got = as_set(providedBy(obs[o_new]))
                    if not (lo <= got <= hi):
                        ctx.violation('C01', 'providedBy-bounds', 'C01|providedBy(instance)|%s' % ('missing-class' if lo - got else 'extra'),
                                      {'ob': o_new, 'class': c, 'lo': sorted(lo), 'got': sorted(got), 'hi': sorted(hi)})
            elif name == 'newob':
                if not classes:
                    continue
                c = op['c'] % len(classes)
                if M.classes[c].get('builtin'):
                    derived = [x for x in range(len(classes)) if not M.classes[x].get('builtin')]
                    if not derived:
                        continue
                    c = derived[op['c'] % len(derived)]
                obs.append(classes[c]())
                M.obs.append(dict(cls=c, must=[], may=[]))
                ctx.log(step, 'newob', len(obs) - 1, c)
            elif name == 'cimpl':
                if not classes:
                    continue
                c = op['c'] % len(classes)
                xs = [x % nI for x in op['xs']]
                v = op['v']
                if v == 2:
                    xs = xs[:1]
                hi_before = M.U(c)
                if any(x in hi_before for x in xs):
                    ctx.probe('elision-possible')
                M.class_implements(c, xs)
                args = [ifs[x] for x in xs]
                if op.get('reenter') and not M.classes[c].get('slots'):
                    anc = sorted(M.ancestors(c))
                    t_ = anc[op['reenter']['t'] % len(anc)]
                    x_ = op['reenter']['x'] % nI
                    fired_ = []

                    class Declarer:
                        def changed(self_, originally_changed):
                            if fired_:
                                return
                            fired_.append(1)
                            ctx.fault('cb-reenter-declaration-in-change-notification')
                            M.class_implements(t_, [x_])
                            classImplements(classes[t_], ifs[x_])
                    d_ = Declarer()
                    keepalive.append(d_)
                    implementedBy(classes[c]).subscribe(d_)
                if v == 0:
                    classImplements(classes[c], *args)
                elif v == 1:
                    implementer(*args)(classes[c])
                elif v == 2:
                    classImplementsFirst(classes[c], args[0])
                else:
                    classImplements(classes[c], tuple(args))     # nested sequence is flattened
                ctx.log(step, 'cimpl', c, xs, v)
            elif name == 'conly':
                if op.get('byob'):
                    live = [i for i, ob in enumerate(obs) if ob is not None]
                    if not live:
                        continue
                    c = M.obs[live[op['c'] % len(live)]]['cls']
                else:
                    if not classes:
                        continue
                    c = op['c'] % len(classes)
                xs = [x % nI for x in op['xs']]
                has_sub = any(c in m['bases'] for m in M.classes)
                has_inst = any(ob is not None and M.obs[i]['cls'] == c for i, ob in enumerate(obs))
                if has_sub and has_inst:
                    ctx.probe('only-with-live-subclasses-and-instances')
                ctx.probe('only-form')
                M.class_only(c, xs)
                args = [ifs[x] for x in xs]
                if op['v'] == 0:
                    classImplementsOnly(classes[c], *args)
                else:
                    implementer_only(*args)(classes[c])
                ctx.log(step, 'conly', c, xs, op['v'])
            elif name == 'obimpl':
                live = [i for i, ob in enumerate(obs) if ob is not None]
                if not live:
                    continue
                o = live[op['o'] % len(live)]
                try:
                    implementer(*[ifs[x % nI] for x in op['xs']])(obs[o])
                    ctx.probe('instance-declared-as-factory')
                except TypeError:
                    pass            # no __dict__ (slots): cannot carry the declaration
                ctx.log(step, 'obimpl', o, op['xs'])
            elif name in ('dprov', 'aprov', 'nprov'):
                live = [i for i, ob in enumerate(obs) if ob is not None]
                if not live:
                    continue
                o = live[op['o'] % len(live)]
                if op.get('sib_of') is not None:
                    first = live[op['sib_of'] % len(live)]
                    sibs = [i for i in live if i != first and M.obs[i]['cls'] == M.obs[first]['cls']]
                    if sibs:
                        o = sibs[op['o'] % len(sibs)]
                        ctx.probe('same-declaration-on-a-sibling-after-narrowing')
                m = M.obs[o]
                c = m['cls']
                hi = M.U(c)
                before_ids = {id(v) for v in list(zd.InstanceDeclarations.values())}
                if name == 'dprov':
                    xs = [x % nI for x in op['xs']]
                    args = [ifs[x] for x in xs]
                    kspec = None
                    if op.get('kspec') is not None and classes:
                        kspec = op['kspec'] % len(classes)
                        args.insert(op.get('kpos', 0) % (len(args) + 1), implementedBy(classes[kspec]))
                        ctx.probe('class-specification-among-the-arguments-of-directlyProvides')
                    M.directly(m, hi, xs, kspec)
                    directlyProvides(obs[o], *args)
                    ctx.log(step, 'dprov', o, xs, kspec)
                    ob_decl_probe(o, before_ids)
                elif name == 'aprov':
                    xs = [x % nI for x in op['xs']]
                    M.also(m, hi, xs)
                    alsoProvides(obs[o], *[ifs[x] for x in xs])
                    ctx.log(step, 'aprov', o, xs)
                    ob_decl_probe(o, before_ids)
                else:
                    x = op['x'] % nI
                    lo = M.L(c)
                    M.nolonger(m, hi, x)
                    try:
                        noLongerProvides(obs[o], ifs[x])
                        raised = False
                    except ValueError:
                        raised = True
                    ctx.log(step, 'nprov', o, x, raised)
                    lo_after = lo | M.clos(m['must'])
                    hi_after = hi | M.clos(m['must'] + m['may'])
                    # (noLongerProvides has replaced a class specification among the direct declarations by interfaces)
                    if x in lo_after and not raised:
                        ctx.violation('C01', 'noLongerProvides-should-raise', 'C01|noLongerProvides|no-ValueError',
                                      {'ob': o, 'iface': x})
                    if x not in hi_after and raised:
                        ctx.violation('C01', 'noLongerProvides-should-not-raise', 'C01|noLongerProvides|spurious-ValueError',
                                      {'ob': o, 'iface': x})
            elif name in ('cprov', 'caprov', 'cnprov'):
                if not classes:
                    continue
                c = op['c'] % len(classes)
                m = M.classes[c]
                if m.get('slots'):
                    continue
                dm = {'must': m['dmust'], 'may': m['dmay']}
                if name == 'cprov':
                    xs = [x % nI for x in op['xs']]
                    dm['must'], dm['may'] = list(dict.fromkeys(xs)), []
                    if op['v'] == 0:
                        directlyProvides(classes[c], *[ifs[x] for x in xs])
                    else:
                        provider(*[ifs[x] for x in xs])(classes[c])
                    ctx.log(step, 'cprov', c, xs, op['v'])
                elif name == 'caprov':
                    xs = [x % nI for x in op['xs']]
                    M.also(dm, set(), xs)
                    alsoProvides(classes[c], *[ifs[x] for x in xs])
                    ctx.log(step, 'caprov', c, xs)
                else:
                    x = op['x'] % nI
                    M.nolonger(dm, set(), x)
                    try:
                        noLongerProvides(classes[c], ifs[x])
                        raised = False
                    except ValueError:
                        raised = True
                    ctx.log(step, 'cnprov', c, x, raised)
                    via_meta = (bool(m.get('meta')) and x in M.clos(meta_impl)) or x in M.clos(type_impl)
                    if raised and not via_meta:
                        ctx.violation('C01', 'noLongerProvides(class)-raised', 'C01|noLongerProvides(class)|spurious-ValueError',
                                      {'class': c, 'iface': x})
                    if via_meta and not raised:
                        ctx.violation('C01', 'noLongerProvides(class)-should-raise', 'C01|noLongerProvides(class)|no-ValueError',
                                      {'class': c, 'iface': x})
                m['dmust'], m['dmay'] = dm['must'], dm['may']
            elif name == 'churn':
                usable = [c for c in range(len(classes)) if not M.classes[c].get('slots')]
                if not usable:
                    continue

                def short_lived(bsel, xsel, addr=None):
                    bl = list(dict.fromkeys(usable[b % len(usable)] for b in bsel))
                    T = None
                    misses = []
                    for _try in range(40 if addr is not None else 1):
                        try:
                            T = type('Tmp', tuple(classes[b] for b in bl), {'__module__': 'zisim.w'})
                        except TypeError:
                            bl = bl[:1]
                            T = type('Tmp', (classes[bl[0]],), {'__module__': 'zisim.w'})
                        if addr is None or id(T) == addr:
                            break
                        misses.append(T)
                    if addr is not None and id(T) == addr:
                        ctx.fault('address-reuse')
                    xs_ = [x % nI for x in xsel]
                    hi_b = set()
                    lo_b = set()
                    for b in bl:
                        hi_b |= M.U(b)
                        lo_b |= M.L(b)
                    must, _may = M.classify(xs_, hi_b)
                    if xs_:
                        classImplements(T, *[ifs[x] for x in xs_])
                    t = T()
                    lo, hi = lo_b | M.clos(must), hi_b | M.clos(xs_)
                    for what, got in (('implementedBy(class)', as_set(implementedBy(T))), ('providedBy(instance)', as_set(providedBy(t)))):
                        if not (lo <= got <= hi):
                            ctx.violation('C01', 'churn', 'C01|%s|short-lived-class|%s' % (what, 'missing' if lo - got else 'extra'),
                                          {'bases': bl, 'declared': xs_, 'lo': sorted(lo), 'got': sorted(got), 'hi': sorted(hi), 'second': addr is not None})
                    if want_super:
                        # (a proxy sees every class after T in the MRO on its own: an *only* declaration of one of them does
                        # not hide the classes further along)
                        rest = [classes.index(x) for x in T.__mro__[1:] if x in classes]
                        lo_b, hi_b = set(), set()
                        for cc in rest:
                            lo_b |= M.L(cc)
                            hi_b |= M.U(cc)
                        for mk_ in (super, SuperSub):
                            got = as_set(providedBy(mk_(T, t)))
                            if not (lo_b <= got <= hi_b):
                                ctx.violation('C19', 'churn', 'C19|providedBy(super)|short-lived-class|%s' % ('missing' if lo_b - got else 'extra'),
                                              {'bases': bl, 'lo': sorted(lo_b), 'got': sorted(got), 'hi': sorted(hi_b), 'second': addr is not None})
                    a_ = id(T)
                    del misses, t, T
                    return a_, bl, xs_
                a1, bl1, x1 = short_lived(op['b1'], op['xs1'])
                gc.collect()
                ctx.fault('drop')
                ctx.fault('gc')
                _a2, bl2, x2 = short_lived(op['b2'], op['xs2'], a1)
                gc.collect()
                ctx.probe('short-lived-classes')
                ctx.log(step, 'churn', bl1, x1, bl2, x2)
            elif name == 'timpl':
                xs = [x % nI for x in op['xs']]
                classImplements(type, *[ifs[x] for x in xs])
                for x in xs:
                    if x not in type_impl:
                        type_impl.append(x)
                ctx.probe('declaration-for-the-builtin-type')
                ctx.log(step, 'timpl', xs)
            elif name == 'fimpl':
                if not funcs:
                    continue
                f = op['f'] % len(funcs)
                xs = [x % nI for x in op['xs']]
                M.funcs[f]['must'] = xs
                implementer(*[ifs[x] for x in xs])(funcs[f])
                ctx.log(step, 'fimpl', f, xs)
            elif name == 'drop':
                live = [i for i, ob in enumerate(obs) if ob is not None]
                if not live:
                    continue
                o = live[op['o'] % len(live)]
                obs[o] = None
                ctx.fault('drop')
                ctx.log(step, 'drop', o)
            elif name == 'query':
                kind = op['kind']
                if kind == 0:
                    live = [i for i, ob in enumerate(obs) if ob is not None]
                    if live:
                        o = live[op['i'] % len(live)]
                        ctx.log(step, 'q-providedBy', o, names(providedBy(obs[o]).flattened()))
                elif kind == 1 and classes:
                    c = op['i'] % len(classes)
                    ctx.log(step, 'q-implementedBy', c, names(implementedBy(classes[c]).flattened()),
                            names(implementedBy(classes[c])))
                elif kind == 2:
                    live = [i for i, ob in enumerate(obs) if ob is not None]
                    if live:
                        o = live[op['i'] % len(live)]
                        ctx.log(step, 'q-directlyProvidedBy', o, names(directlyProvidedBy(obs[o])))
            else:
                raise ValueError('unknown op %r' % (name,))
            for b_ in bombs:
                b_.armed = False
            if spies and name == 'cimpl' and op.get('reenter'):
                # the observer's rule (the last notification of a declaration call sees the final state) does not cover a call
                # that contains a second declaration on a class the observed specification does not depend on
                for spy in spies:
                    spy.seen = {}
            if spies:
                check_spies()
            if primed:
                reask(primed)
            check(k)
        ctx.step = len(program['ops'])
        check(0, final=True)
    finally:
        pass


def describe(program):
    return {'world': program['world'], 'ops': program['ops'][:12]}


def run(req, item):
    return standard_run(generate, execute, req, item, describe)
