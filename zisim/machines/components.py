"""Machine `components` -- Components register/unregister histories (C16).

World: 1-3 `Components` objects (with bases), utility components that are
hashable, unhashable, equal-but-distinct or identical, adapter / subscriber /
handler factories (some declaring `__component_adapts__` / implementing a single
interface so that the implicit forms are used), names, related provided
interfaces.  The event sink `zope.interface.registry.notify` is replaced by a
recorder.

Oracle: ComponentsModel (four plain containers per Components object).  After
every operation: the four listings, return values and emitted events are
compared with the model; every query method is compared with fresh adapter
registries populated from the model; `rebuildUtilityRegistryFromLocalCache()`
must find nothing to repair.
"""
import gc

from ..prng import Streams, h64
from .base import standard_run, Stop, reach

MACHINE = 'components'
NAMES = ['', 'a', 'b']


def generate(seed, mode):
    S = Streams(seed)
    w = S('world')
    o = S('ops')
    nC = w.choice([1, 1, 2, 2, 3])
    comps = []
    for c in range(nC):
        comps.append({'bases': w.sample(range(c), min(c, w.choice([0, 1, 1, 2])))})
    nops = w.randint(5, 40)
    util_bias = w.choice([0.3, 0.55, 0.8])
    ops = []
    for _ in range(nops):
        k = o.getrandbits(30)
        r = o.random()
        c = o.randrange(nC)
        if o.random() < 0.03:
            ops.append({'op': 'gc', 'k': k})
        if r < util_bias * 0.6:
            ops.append({'op': 'regU', 'c': c, 'u': o.randrange(16), 'p': o.randrange(4), 'n': o.randrange(3),
                        'info': o.choice(['', '', 'i1']), 'event': o.random() < 0.85, 'form': o.randrange(4), 'k': k})
        elif r < util_bias:
            ops.append({'op': 'unregU', 'c': c, 'sel': o.randrange(64), 'how': o.randrange(5), 'k': k})
        else:
            r2 = o.random()
            if r2 < 0.2:
                ops.append({'op': 'regA', 'c': c, 'f': o.randrange(8), 'req': [o.randrange(6) for _ in range(o.choice([1, 1, 2]))],
                            'p': o.randrange(3), 'n': o.randrange(3), 'info': o.choice(['', 'i2']), 'event': o.random() < 0.85,
                            'form': o.randrange(3), 'k': k})
            elif r2 < 0.32:
                ops.append({'op': 'unregA', 'c': c, 'sel': o.randrange(64), 'how': o.randrange(4), 'k': k})
            elif r2 < 0.47:
                ops.append({'op': 'regS', 'c': c, 'f': o.randrange(8), 'req': [o.randrange(6) for _ in range(o.choice([1, 1, 2]))],
                            'p': o.randrange(3), 'info': o.choice(['', 'i3']), 'event': o.random() < 0.85, 'k': k})
            elif r2 < 0.57:
                ops.append({'op': 'unregS', 'c': c, 'sel': o.randrange(64), 'how': o.randrange(4), 'k': k})
            elif r2 < 0.72:
                ops.append({'op': 'regH', 'c': c, 'f': o.randrange(8), 'req': [o.randrange(6) for _ in range(o.choice([1, 1, 2]))],
                            'info': o.choice(['', 'i4']), 'event': o.random() < 0.85, 'k': k})
            elif r2 < 0.82:
                ops.append({'op': 'unregH', 'c': c, 'sel': o.randrange(64), 'how': o.randrange(4), 'k': k})
            elif r2 < 0.88:
                ops.append({'op': 'reinit', 'c': c, 'k': k})
            elif r2 < 0.94:
                ops.append({'op': 'cbases', 'c': c, 'bases': [o.randrange(nC) for _ in range(o.choice([0, 1, 2]))], 'k': k})
            elif o.random() < 0.5:
                ops.append({'op': 'rebuildcache', 'c': c, 'k': k})
            else:
                # fault `cb-raise` inside the consistency probe: comparing a registered utility fails once (an array-like
                # component whose == / != cannot be turned into a truth value); the caller catches it and carries on
                ops.append({'op': 'probefail', 'c': c, 'k': k})
    # repeat bias: three in ten registrations re-use the key (and factory / component) of an earlier registration of the same
    # kind -- identical duplicates, replacements, the same factory twice under one key -- which uniform choice almost never gives
    rep = S('repeat')
    seen = {}
    for op in ops:
        kind = op['op']
        if kind in ('regU', 'regA', 'regS', 'regH'):
            prev = seen.setdefault(kind, [])
            if prev and rep.random() < 0.3:
                src = rep.choice(prev)
                for fld in ('u', 'f', 'req', 'p', 'n'):
                    if fld in src and not (fld in ('u', 'f') and rep.random() < 0.25):
                        op[fld] = src[fld]
                if rep.random() < 0.5:
                    op['c'] = src['c']
            prev.append(dict(op))
    return {'machine': MACHINE, 'seed': seed, 'world': {'comps': comps}, 'ops': ops}


def execute(program, ctx, mode):
    from zope.interface import Interface, implementer, directlyProvides, providedBy, implementedBy
    from zope.interface.interface import InterfaceClass
    from zope.interface.adapter import AdapterRegistry
    from zope.interface import registry as zr
    from zope.interface.registry import Components
    from zope.interface.interfaces import Registered, Unregistered, ComponentLookupError

    events = []
    zr.notify = lambda ev: events.append(ev)
    # swarm knob (one world in four): one of the names is not in Unicode normal form C ("e" + combining acute, as file systems
    # and browsers produce) -- a name is a key as it stands, in every method alike
    NAMES = ['', 'a', 'e\u0301' if h64(program.get('seed') or 0, 'non-nfc-name') % 4 == 0 else 'b']
    shapeno = [0]

    def shaped(req):
        """the `required` argument as a list, a tuple, a one-shot iterator or a generator, in rotation"""
        shapeno[0] += 1
        sh = shapeno[0] % 4
        if sh == 1:
            return tuple(req)
        if sh == 2:
            ctx.probe('required-as-one-shot-iterator')
            return iter(list(req))
        if sh == 3:
            ctx.probe('required-as-one-shot-iterator')
            return (x for x in list(req))
        return list(req)

    def mk(name, bases=()):
        return InterfaceClass(name, tuple(bases) or (Interface,), {}, __module__='zisim.c')
    U0 = mk('U0')
    U1 = mk('U1', (U0,))
    U2 = mk('U2')
    U3 = mk('U3', (U1, U2))
    UP = [U0, U1, U2, U3]
    R0 = mk('R0')
    R1 = mk('R1', (R0,))
    R2 = mk('R2')
    P0 = mk('P0')
    P1 = mk('P1', (P0,))
    P2 = mk('P2')
    PP = [P0, P1, P2]

    @implementer(R1)
    class K0:
        pass

    class K1(K0):
        pass
    REQ = [R0, R1, R2, None, K0, K1]          # None -> Interface, classes -> implementedBy(class)
    REQL = ['R0', 'R1', 'R2', 'None', 'K0', 'K1']

    def req_spec(i):
        x = REQ[i]
        if x is None:
            return Interface
        if isinstance(x, type):
            return implementedBy(x)
        return x
    o0 = K0()
    o1 = K1()
    directlyProvides(o1, R2)
    o2 = object.__new__(type('Plain', (object,), {}))
    OBJS = [o0, o1, o2]
    OL = {id(o0): 'o0', id(o1): 'o1', id(o2): 'o2'}
    calls = []

    # ---- utility components ------------------------------------------------
    class Hashable:
        def __init__(self, lab):
            self.lab = lab

        def __repr__(self):
            return self.lab

    class EqHashable(Hashable):
        def __eq__(self, other):
            return isinstance(other, EqHashable)

        def __ne__(self, other):
            return not self.__eq__(other)

        def __hash__(self):
            return 4711

    class Unhashable(dict):
        def __repr__(self):
            return self['lab']
    # Unhashable compare by content of key 'k' only
        def __eq__(self, other):
            return isinstance(other, Unhashable) and self['k'] == other['k']

        def __ne__(self, other):
            return not self.__eq__(other)
        __hash__ = None
    class FalsyHashable(Hashable):
        """a utility that is false in a boolean context (an empty container-like component)"""
        def __bool__(self):
            return False

        def __len__(self):
            return 0
    touchy = [False]

    class TouchyError(Exception):
        pass

    class Touchy(Hashable):
        """a utility whose comparisons fail while `touchy` is armed (only ever during the consistency probe)"""
        def __eq__(self, other):
            if touchy[0]:
                raise TouchyError()
            return self is other

        def __ne__(self, other):
            if touchy[0]:
                raise TouchyError()
            return self is not other

        def __hash__(self):
            return id(self) >> 4
    utils = [Hashable('u0'), Hashable('u1'), FalsyHashable('u2'), EqHashable('ue0'), EqHashable('ue1'),
             Unhashable(lab='ud0', k=1), Unhashable(lab='ud1', k=1), Unhashable(lab='ud2', k=2), Touchy('ut')]
    named = Hashable('un')
    named.__component_name__ = 'a'
    directlyProvides(named, U2)
    utils.append(named)
    single = Hashable('us')
    directlyProvides(single, U1)
    utils.append(single)

    def ulab(u):
        return getattr(u, 'lab', None) or u['lab']

    # ---- factories ----------------------------------------------------------------
    class Factory:
        def __init__(self, lab, ret='made', eq=None):
            self.lab = lab
            self.ret = ret
            self.eq = eq

        def __call__(self, *objs):
            calls.append((self.lab, tuple(OL.get(id(x), '?') for x in objs)))
            if self.ret == 'none':
                return None
            return ('made', self.lab, tuple(OL.get(id(x), '?') for x in objs))

        def __eq__(self, other):
            return self is other or (self.eq is not None and getattr(other, 'eq', None) == self.eq)

        def __ne__(self, other):
            return not self.__eq__(other)

        def __hash__(self):
            return hash(self.eq) if self.eq is not None else hash(self.lab)

        def __repr__(self):
            return self.lab
    class FalsyFactory(Factory):
        """a factory / handler object that is false in a boolean context"""
        def __bool__(self):
            return False
    facts = [Factory('f0'), FalsyFactory('f1'), Factory('f2', ret='none'), Factory('fe0', eq='e'), Factory('fe1', eq='e')]

    @implementer(P1)
    class ImplFactory(Factory):
        __component_adapts__ = (R0,)
    facts.append(ImplFactory('fi'))
    # instances of ImplFactory: implementedBy(instance)?  the implicit forms need implementedBy(factory) -> declare on the instance
    from zope.interface import implementer as _impl
    fi2 = Factory('fj')
    _impl(P0)(fi2)
    fi2.__component_adapts__ = (R1, R2)
    facts.append(fi2)
    _impl(P1)(facts[5])
    facts[5].__component_adapts__ = (R0,)

    # ---- components + model --------------------------------------------------------------
    CD = program['world']['comps']
    nC = len(CD)
    comps = []
    cb = {}
    for c, cd in enumerate(CD):
        bs = [b for b in cd['bases'] if b < c]
        comps.append(Components('C%d' % c, tuple(comps[b] for b in bs)))
        cb[c] = list(bs)
    M = [dict(utils={}, adapters={}, subs=[], handlers=[]) for _ in range(nC)]

    def consistent(trial):
        from .base import c3
        try:
            for x in trial:
                c3(x, trial)
            return True
        except ValueError:
            return False

    def fresh_registries():
        """adapter registries populated with exactly the model's registrations"""
        ad, ut = {}, {}
        for c in range(nC):
            ad[c] = AdapterRegistry(tuple(ad[b] for b in cb[c]) if all(b in ad for b in cb[c]) else ())
            ut[c] = AdapterRegistry(tuple(ut[b] for b in cb[c]) if all(b in ut for b in cb[c]) else ())
        # bases may point "forward" after cbases; second pass sets them properly
        for c in range(nC):
            ad[c].__bases__ = tuple(ad[b] for b in cb[c])
            ut[c].__bases__ = tuple(ut[b] for b in cb[c])
        for c in range(nC):
            m = M[c]
            seen = []
            for (p, n), (comp, info, fac) in m['utils'].items():
                ut[c].register((), UP[p], n, comp)
                if not any(pp == p and comp == x for pp, x in seen):
                    ut[c].subscribe((), UP[p], comp)
                    seen.append((p, comp))
            for (rq, p, n), (f, info) in m['adapters'].items():
                ad[c].register(tuple(req_spec(i) for i in rq), PP[p], n, f)
            for (rq, p, f, info) in m['subs']:
                ad[c].subscribe(tuple(req_spec(i) for i in rq), PP[p], f)
            for (rq, f, info) in m['handlers']:
                ad[c].subscribe(tuple(req_spec(i) for i in rq), None, f)
        return ad, ut

    def eq_multiset(a, b):
        b = list(b)
        if len(a) != len(b):
            return False
        for x in a:
            for j, y in enumerate(b):
                if x is y or x == y:
                    del b[j]
                    break
            else:
                return False
        return True

    def check(c_touched, k):
        ad, ut = fresh_registries()          # asked lookup / lookupAll family only
        adS, utS = fresh_registries()        # asked subscriptions family only (no cache interplay between the expectations)
        for c in range(nC):
            comp = comps[c]
            m = M[c]
            # ---- listings
            got = sorted((UP.index(r.provided), r.name, id(r.component), r.info, id(r.factory)) for r in comp.registeredUtilities())
            want = sorted((p, n, id(cc), info, id(fac)) for (p, n), (cc, info, fac) in m['utils'].items())
            ctx.state('listing', len(m['utils']), len(m['adapters']), len(m['subs']), len(m['handlers']),
                      sum(1 for v in m['utils'].values() if isinstance(v[0], Unhashable)))
            if got != want:
                ctx.violation('C16', 'registeredUtilities', 'C16|registeredUtilities|%s' % (
                    'extra' if len(got) > len(want) else ('missing' if len(got) < len(want) else 'different')),
                    {'c': c, 'got': [(r.provided.__name__, r.name, ulab(r.component)) for r in comp.registeredUtilities()],
                     'want': [(p, n, ulab(cc)) for (p, n), (cc, i_, f_) in m['utils'].items()]})
            for r in comp.registeredUtilities():
                if r.registry is not comp:
                    ctx.violation('C16', 'registration-registry', 'C16|registration|wrong-registry', {'c': c})
            got = sorted((tuple(r.required), PP.index(r.provided), r.name, id(r.factory), r.info) for r in comp.registeredAdapters())
            want = sorted((tuple(req_spec(i) for i in rq), p, n, id(f), info) for (rq, p, n), (f, info) in m['adapters'].items())
            if [g[1:] for g in got] != [w_[1:] for w_ in want] or any(a is not b for g, w_ in zip(got, want) for a, b in zip(g[0], w_[0])):
                ctx.violation('C16', 'registeredAdapters', 'C16|registeredAdapters|%s' % (
                    'extra' if len(got) > len(want) else ('missing' if len(got) < len(want) else 'different')), {'c': c})
            got = [(tuple(r.required), PP.index(r.provided), id(r.factory), r.info) for r in comp.registeredSubscriptionAdapters()]
            want = [(tuple(req_spec(i) for i in rq), p, id(f), info) for (rq, p, f, info) in m['subs']]
            if got != want:
                ctx.violation('C16', 'registeredSubscriptionAdapters', 'C16|registeredSubscriptionAdapters|%s' % (
                    'extra' if len(got) > len(want) else ('missing' if len(got) < len(want) else 'different')), {'c': c})
            got = [(tuple(r.required), id(r.factory), r.info) for r in comp.registeredHandlers()]
            want = [(tuple(req_spec(i) for i in rq), id(f), info) for (rq, f, info) in m['handlers']]
            if got != want:
                ctx.violation('C16', 'registeredHandlers', 'C16|registeredHandlers|%s' % (
                    'extra' if len(got) > len(want) else ('missing' if len(got) < len(want) else 'different')), {'c': c})
            # ---- queries vs fresh registries populated from the model
            for pi, U in enumerate(UP):
                for n in NAMES:
                    g = comp.queryUtility(U, n)
                    w_ = ut[c].lookup((), U, n)
                    if g is not w_:
                        ctx.violation('C16', 'queryUtility', 'C16|queryUtility|%s' % ('stale' if w_ is None else ('missing' if g is None else 'wrong')),
                                      {'c': c, 'provided': U.__name__, 'name': n, 'got': repr(g), 'want': repr(w_)})
                    try:
                        g2 = comp.getUtility(U, n)
                    except ComponentLookupError:
                        g2 = None
                    if g2 is not g:
                        ctx.violation('C16', 'getUtility', 'C16|getUtility!=queryUtility', {'c': c})
                g = sorted((n, id(x)) for n, x in comp.getUtilitiesFor(U))
                w_ = sorted((n, id(x)) for n, x in ut[c].lookupAll((), U))
                if g != w_:
                    ctx.violation('C16', 'getUtilitiesFor', 'C16|getUtilitiesFor|%s' % ('extra' if len(g) > len(w_) else ('missing' if len(g) < len(w_) else 'different')),
                                  {'c': c, 'provided': U.__name__})
                g = list(comp.getAllUtilitiesRegisteredFor(U))
                w_ = list(utS[c].subscriptions((), U))
                if not eq_multiset(g, w_):
                    ctx.violation('C16', 'getAllUtilitiesRegisteredFor', 'C16|getAllUtilitiesRegisteredFor|%s' % (
                        'extra' if len(g) > len(w_) else ('missing' if len(g) < len(w_) else 'different')),
                        {'c': c, 'provided': U.__name__, 'got': repr(g), 'want': repr(w_)})
            if (h64(k, c, 'adq') % 100) < 60 or c == c_touched:
                for ob in OBJS:
                    for pi, Pi in enumerate(PP):
                        for n in NAMES:
                            del calls[:]
                            g = comp.queryAdapter(ob, Pi, n, 'dflt')
                            gc_ = list(calls)
                            del calls[:]
                            w_ = ad[c].queryAdapter(ob, Pi, n, 'dflt')
                            if g != w_ or gc_ != calls:
                                ctx.violation('C16', 'queryAdapter', 'C16|queryAdapter|%s' % (
                                    'stale' if w_ == 'dflt' else ('missing' if g == 'dflt' else 'wrong')),
                                    {'c': c, 'ob': OL[id(ob)], 'provided': Pi.__name__, 'name': n, 'got': repr(g), 'want': repr(w_)})
                        g = sorted(comp.getAdapters((ob,), Pi))
                        w_ = []
                        for n, f in ad[c].lookupAll([providedBy(ob)], Pi):
                            r_ = f(ob)
                            if r_ is not None:
                                w_.append((n, r_))
                        if g != sorted(w_):
                            ctx.violation('C16', 'getAdapters', 'C16|getAdapters', {'c': c, 'got': repr(g), 'want': repr(w_)})
                        g = comp.subscribers((ob,), Pi)
                        w_ = adS[c].subscribers((ob,), Pi)
                        if sorted(map(repr, g)) != sorted(map(repr, w_)):
                            ctx.violation('C16', 'subscribers', 'C16|subscribers|%s' % (
                                'extra' if len(g) > len(w_) else ('missing' if len(g) < len(w_) else 'different')),
                                {'c': c, 'got': repr(g), 'want': repr(w_)})
                    del calls[:]
                    comp.handle(ob)
                    gc_ = sorted(calls)
                    del calls[:]
                    adS[c].subscribers((ob,), None)
                    if gc_ != sorted(calls):
                        ctx.violation('C16', 'handle', 'C16|handle|%s' % ('extra' if len(gc_) > len(calls) else 'missing-or-different'),
                                      {'c': c, 'got': gc_, 'want': sorted(calls)})
                for pair in ((o0, o1), (o1, o0)):
                    for Pi in PP:
                        g = comp.queryMultiAdapter(pair, Pi, '', 'dflt')
                        w_ = ad[c].queryMultiAdapter(pair, Pi, '', 'dflt')
                        if g != w_:
                            ctx.violation('C16', 'queryMultiAdapter', 'C16|queryMultiAdapter', {'c': c, 'got': repr(g), 'want': repr(w_)})
                    del calls[:]
                    comp.handle(*pair)
                    gc_ = sorted(calls)
                    del calls[:]
                    adS[c].subscribers(pair, None)
                    if gc_ != sorted(calls):
                        ctx.violation('C16', 'handle', 'C16|handle|multi', {'c': c})
            # ---- consistency probe
            try:
                rep = comp.rebuildUtilityRegistryFromLocalCache()
            except Exception as e:      # noqa: nothing of the simulator fails here (comparisons fail only inside `probefail`)
                ctx.violation('C16', 'rebuild-probe', 'C16|rebuildUtilityRegistryFromLocalCache|raises|%s' % type(e).__name__, {'c': c})
            if rep['needed_registered'] or rep['needed_subscribed']:
                ctx.violation('C16', 'rebuild-probe', 'C16|rebuildUtilityRegistryFromLocalCache|%s' % (
                    'needed_registered' if rep['needed_registered'] else 'needed_subscribed'), {'c': c, 'report': rep})

    def ev_sig(ev):
        o = ev.object
        kind = 'R' if isinstance(ev, Registered) else ('U' if isinstance(ev, Unregistered) else '?')
        return (kind, type(o).__name__, o)

    def expect_events(opname, want, c):
        """want: list of (kind, RegistrationClassName, checker) ; checker(reg) -> bool"""
        got = [ev_sig(e) for e in events]
        ok = len(got) == len(want)
        if ok:
            for (gk, gt, go), (wk, wt, chk) in zip(got, want):
                if gk != wk or gt != wt or go.registry is not comps[c] or not chk(go):
                    ok = False
        if not ok:
            ctx.violation('C16', 'events', 'C16|events|%s|%s' % (opname, 'too-many' if len(got) > len(want) else (
                'too-few' if len(got) < len(want) else 'wrong-content')),
                {'c': c, 'got': [(a, b) for a, b, _ in got], 'want': [(a, b) for a, b, _ in want]})

    check(None, 0)

    for step, op in enumerate(program['ops']):
        ctx.step = step
        ctx.nops += 1
        name = op['op']
        k = op.get('k', 0)
        del events[:]
        if name == 'gc':
            gc.collect()
            ctx.fault('gc')
            ctx.log(step, 'gc')
            continue
        c = op['c'] % nC
        comp = comps[c]
        m = M[c]
        if name == 'regU':
            u = utils[op['u'] % len(utils)]
            form = op['form'] % 4
            p = op['p'] % 4
            n = NAMES[op['n'] % 3]
            info = op['info']
            kw = {}
            via_factory = None
            if form == 1 and u is named:
                p = 2                       # provided from providedBy(component)
                args = dict(component=u, name=n, info=info)
            elif form == 1 and u is single:
                p = 1
                args = dict(component=u, name=n, info=info)
            elif form == 2 and not isinstance(u, Unhashable):
                via_factory = (lambda uu: (lambda: uu))(u)
                args = dict(factory=via_factory, provided=UP[p], name=n, info=info)
            else:
                args = dict(component=u, provided=UP[p], name=n, info=info)
            if n == '' and u is named:
                n = 'a'                     # name from __component_name__
            if not op['event']:
                args['event'] = False
            old = m['utils'].get((p, n))
            want_events = []
            if old is not None and old[0] == u and old[1] == info:
                ctx.probe('utility-reregistered-noop')
            else:
                if old is not None:
                    ctx.probe('utility-replaced')
                    oc = old[0]
                    want_events.append(('U', 'UtilityRegistration', lambda r, oc=oc, p=p, n=n: r.component == oc and r.provided is UP[p] and r.name == n))
                m['utils'][(p, n)] = (u, info, via_factory)
                if op['event']:
                    want_events.append(('R', 'UtilityRegistration', lambda r, u=u, p=p, n=n, info=info: r.component is u and r.provided is UP[p] and r.name == n and r.info == info))
                if isinstance(u, Unhashable):
                    ctx.probe('unhashable-utility')
                if sum(1 for (pp, nn), v in m['utils'].items() if pp == p and v[0] == u) > 1:
                    ctx.probe('same-or-equal-utility-under-several-names')
            ret = comp.registerUtility(**args)
            ctx.log(step, 'regU', c, ulab(u), p, n, info, op['event'], form)
            expect_events('registerUtility', want_events, c)
        elif name == 'unregU':
            keys = sorted(m['utils'], key=repr)
            how = op['how'] % 5
            if keys and how != 4:
                p, n = keys[op['sel'] % len(keys)]
                cur = m['utils'][(p, n)][0]
            else:
                p, n = op['sel'] % 4, NAMES[(op['sel'] >> 2) % 3]
                cur = m['utils'].get((p, n), (None,))[0]
            if how == 0 or cur is None:
                u = cur
            elif how == 1:
                u = None
            elif how == 2:
                eqs = [x for x in utils if x == cur and x is not cur]
                u = eqs[0] if eqs else cur
                if eqs:
                    ctx.probe('unregister-equal-but-distinct')
            else:
                u = utils[(utils.index(cur) + 1) % len(utils)] if cur in utils else utils[0]
            removes = cur is not None and (u is None or u == cur)
            want_events = []
            if removes:
                want_events.append(('U', 'UtilityRegistration', lambda r, cur=cur, p=p, n=n: r.component == cur and r.provided is UP[p] and r.name == n))
                del m['utils'][(p, n)]
                if any(pp == p and v[0] == cur for (pp, nn), v in m['utils'].items()):
                    ctx.probe('unregistered-one-of-several-names')
            ret = comp.unregisterUtility(u, UP[p], n)
            ctx.log(step, 'unregU', c, None if u is None else ulab(u), p, n, ret)
            if bool(ret) != removes:
                ctx.violation('C16', 'return', 'C16|unregisterUtility|return-value', {'c': c, 'ret': ret, 'want': removes})
            expect_events('unregisterUtility', want_events, c)
        elif name in ('regA', 'regS', 'regH'):
            f = facts[op['f'] % len(facts)]
            rq = tuple(x % len(REQ) for x in op['req'])
            info = op['info']
            kw = {}
            if not op['event']:
                kw['event'] = False
            required = shaped([REQ[i] for i in rq])
            if name == 'regA':
                p = op['p'] % 3
                n = NAMES[op['n'] % 3]
                if op['form'] % 3 == 1 and getattr(f, '__component_adapts__', None):
                    # implicit form: required from __component_adapts__, provided from implementedBy(factory)
                    rq = tuple(REQ.index(x) for x in f.__component_adapts__)
                    p = PP.index(list(implementedBy(f))[0])
                    comp.registerAdapter(f, name=n, info=info, **kw)
                    ctx.probe('implicit-adapter-form')
                else:
                    comp.registerAdapter(f, required, PP[p], n, info, **kw)
                old = m['adapters'].get((rq, p, n))
                m['adapters'][(rq, p, n)] = (f, info)
                chk = lambda r, f=f, rq=rq, p=p, n=n, info=info: (r.factory is f and r.provided is PP[p] and r.name == n and r.info == info
                                                                  and tuple(r.required) == tuple(req_spec(i) for i in rq))
                want = [('R', 'AdapterRegistration', chk)] if op['event'] else []
                got = [ev_sig(e) for e in events]
                if old is not None and len(got) == len(want) + 1 and got[0][0] == 'U':
                    del events[0]        # a replaced adapter may or may not announce the removal (statement is silent)
                expect_events('registerAdapter', want, c)
                ctx.log(step, 'regA', c, f.lab, [REQL[i] for i in rq], p, n, info)
            elif name == 'regS':
                p = op['p'] % 3
                comp.registerSubscriptionAdapter(f, required, PP[p], info=info, **kw)
                m['subs'].append((rq, p, f, info))
                chk = lambda r, f=f, rq=rq, p=p, info=info: (r.factory is f and r.provided is PP[p] and r.info == info
                                                             and tuple(r.required) == tuple(req_spec(i) for i in rq))
                expect_events('registerSubscriptionAdapter', [('R', 'SubscriptionRegistration', chk)] if op['event'] else [], c)
                ctx.log(step, 'regS', c, f.lab, [REQL[i] for i in rq], p, info)
            else:
                comp.registerHandler(f, required, info=info, **kw)
                m['handlers'].append((rq, f, info))
                chk = lambda r, f=f, rq=rq, info=info: (r.factory is f and r.info == info
                                                        and tuple(r.required) == tuple(req_spec(i) for i in rq))
                expect_events('registerHandler', [('R', 'HandlerRegistration', chk)] if op['event'] else [], c)
                ctx.log(step, 'regH', c, f.lab, [REQL[i] for i in rq], info)
        elif name == 'unregA':
            keys = sorted(m['adapters'], key=repr)
            how = op['how'] % 4
            if keys and how != 3:
                rq, p, n = keys[op['sel'] % len(keys)]
                cur = m['adapters'][(rq, p, n)][0]
            else:
                rq, p, n = (op['sel'] % len(REQ),), op['sel'] % 3, NAMES[(op['sel'] >> 2) % 3]
                cur = m['adapters'].get((rq, p, n), (None,))[0]
            if how == 0 or cur is None:
                f = cur
            elif how == 1:
                f = None
            else:
                eqs = [x for x in facts if x == cur and x is not cur]
                f = eqs[0] if (eqs and how == 2) else facts[(facts.index(cur) + 1) % len(facts)]
            removes = cur is not None and (f is None or f == cur)
            want = []
            if removes:
                want.append(('U', 'AdapterRegistration', lambda r, cur=cur, p=p, n=n: r.factory == cur and r.provided is PP[p] and r.name == n))
                del m['adapters'][(rq, p, n)]
            ret = comp.unregisterAdapter(f, shaped([REQ[i] for i in rq]), PP[p], n)
            ctx.log(step, 'unregA', c, None if f is None else f.lab, [REQL[i] for i in rq], p, n, ret)
            if bool(ret) != removes:
                ctx.violation('C16', 'return', 'C16|unregisterAdapter|return-value', {'c': c, 'ret': ret, 'want': removes})
            expect_events('unregisterAdapter', want, c)
        elif name in ('unregS', 'unregH'):
            lst = m['subs'] if name == 'unregS' else m['handlers']
            how = op['how'] % 4
            if lst and how != 3:
                ent = lst[op['sel'] % len(lst)]
                rq = ent[0]
                p = ent[1] if name == 'unregS' else None
                cur = ent[2] if name == 'unregS' else ent[1]
            else:
                rq, p, cur = (op['sel'] % len(REQ),), (op['sel'] % 3 if name == 'unregS' else None), None
            if how == 0:
                f = cur
            elif how == 1:
                f = None
            else:
                eqs = [x for x in facts if cur is not None and x == cur and x is not cur]
                f = eqs[0] if (eqs and how == 2) else facts[op['sel'] % len(facts)]
            if name == 'unregS':
                keep = [e for e in lst if not (e[0] == rq and e[1] == p and (f is None or e[2] == f))]
            else:
                keep = [e for e in lst if not (e[0] == rq and (f is None or e[1] == f))]
            removed = len(lst) - len(keep)
            if removed > 1:
                ctx.probe('bulk-unregister')
            lst[:] = keep
            required = [REQ[i] for i in rq]
            if f is None and not required:
                continue
            required = shaped(required)
            if name == 'unregS':
                ret = comp.unregisterSubscriptionAdapter(f, required, PP[p])
                cls = 'SubscriptionRegistration'
            else:
                ret = comp.unregisterHandler(f, required)
                cls = 'HandlerRegistration'
            ctx.log(step, name, c, None if f is None else f.lab, [REQL[i] for i in rq], p, ret)
            if bool(ret) != (removed > 0):
                ctx.violation('C16', 'return', 'C16|%s|return-value' % name, {'c': c, 'ret': ret, 'removed': removed})
            got = [ev_sig(e) for e in events]
            okc = (len(got) in ((1, removed) if removed else (0,))) and all(g[0] == 'U' and g[1] == cls and g[2].registry is comp for g in got)
            if not okc:
                ctx.violation('C16', 'events', 'C16|events|%s|%s' % (name, 'too-many' if len(got) > max(removed, 1 if removed else 0) else 'too-few'),
                              {'c': c, 'got': len(got), 'removed': removed})
        elif name == 'reinit':
            comp.__init__('C%d' % c, tuple(comps[b] for b in cb[c]))
            M[c] = dict(utils={}, adapters={}, subs=[], handlers=[])
            # Components that have this one as a base keep pointing at its *old* registries until their bases are assigned
            # again; the documented clean-up is to do exactly that, with the same tuple
            for x in range(nC):
                if c in cb[x]:
                    comps[x].__bases__ = tuple(comps[b] for b in cb[x])
                    ctx.probe('bases-reassigned-after-re-initialising-a-base')
            ctx.probe('re-initialised')
            ctx.log(step, 'reinit', c)
            if events:
                ctx.violation('C16', 'events', 'C16|events|__init__|too-many', {})
        elif name == 'cbases':
            nb = []
            for b in op['bases']:
                b = b % nC
                if b != c and b not in nb and c not in reach(cb, b):
                    nb.append(b)
            trial = dict(cb)
            trial[c] = nb
            if not consistent(trial):
                continue
            comp.__bases__ = tuple(comps[b] for b in nb)
            cb[c] = nb
            ctx.probe('components-bases-changed')
            ctx.log(step, 'cbases', c, nb)
            if tuple(comp.__bases__) != tuple(comps[b] for b in nb):
                ctx.violation('C16', 'bases', 'C16|__bases__|not-stored', {})
        elif name == 'probefail':
            touchy[0] = True
            try:
                comp.rebuildUtilityRegistryFromLocalCache()
                ctx.probe('probe-with-touchy-comparisons-did-not-fail')
            except TouchyError:
                ctx.fault('cb-raise-in-consistency-probe')
            finally:
                touchy[0] = False
            ctx.log(step, 'probefail', c)
        elif name == 'rebuildcache':
            comp._v_utility_registrations_cache = None      # "the _v_ cache recreated on demand" (as after unpickling)
            ctx.probe('volatile-cache-dropped')
            ctx.log(step, 'dropcache', c)
        else:
            raise ValueError(name)
        check(c, k)
    ctx.step = len(program['ops'])


def describe(program):
    return {'world': program['world'], 'ops': program['ops'][:12]}


def run(req, item):
    return standard_run(generate, execute, req, item, describe)
