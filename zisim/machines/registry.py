"""Machine `registry` -- adapter registry histories (C04, C05, C06, C07, C08, C09).

World: a required-side interface DAG, a provided-side interface DAG, classes
(class specifications used as keys) and instances (looked up through
providedBy), 1-5 registries of either flavour in a DAG, stub values.

History: register / unregister / subscribe / unsubscribe on any registry,
`rebuild()`, registry `__bases__` assignment, `__bases__` assignment of required
interfaces, class and instance declaration changes, lookups through every entry
point over a small key pool (so repeats are frequent), and the simulator's
faults: collect now, permute notification order (sub-registries, spec
dependents), drop the last reference to a leaf registry, factories that return
None or raise.

Oracles, selected by mode['props']:
  C04/C06  brute-force RegistryModel over the *current* registry DAG (own C3)
  C05      cold twin: fresh registries with the same mutation history replayed, no lookups
  C07      model list of live subscriptions: multiset + the specified part of the order
  C08      every entry point vs lookup()/subscriptions() of a cold twin composed with the stub factories
  C09      model dict of live registrations after every op; replay / rebuild() equivalence
"""
import gc
import random

from ..prng import Streams, h64
from .base import standard_run, Stop, c3, reach

MACHINE = 'registry'
NAMES = ['', 'a', 'b']
ENTRIES = ['lookup', 'lookup1', 'lookupAll', 'names', 'subscriptions',
           'queryAdapter', 'adapter_hook', 'queryMultiAdapter', 'subscribers']


# --------------------------------------------------------------------------
# generation
# --------------------------------------------------------------------------

def _dag(w, n, kmax):
    out = []
    for i in range(n):
        k = min(i, w.choice(list(range(kmax + 1))))
        out.append(sorted(w.sample(range(i), k)))
    return out


def generate(seed, mode):
    S = Streams(seed)
    w = S('world')
    o = S('ops')
    shape = mode.get('shape', 'dynamic')
    # swarm knob: one world in twelve is "big" (wide and deep hierarchies, arity up to 5, a larger key pool), so that
    # nothing silently depends on the small default sizes (dictionary resizes, deep recursion of the walk, long orders)
    big = h64(seed, 'big-world') % 12 == 0
    nRi = w.randint(3, 6) if not big else w.randint(7, 11)
    rifaces = _dag(w, nRi, 2 if not big else 4)
    if h64(seed, 'huge-world') % 40 == 0:
        # one world in forty: resolution orders of 40-70 entries (a long chain with a few side branches) -- nothing may
        # depend on orders being short
        nRi = w.randint(40, 70)
        # interfaces 0-2 are bare markers, the rest is the chain (with a few side branches)
        rifaces = [[], [], [], []] + [[i - 1] + ([w.randrange(3, i - 1)] if i > 5 and w.random() < 0.1 else []) for i in range(4, nRi)]
    huge = h64(seed, 'huge-world') % 40 == 0
    nP = w.randint(2, 4) if not big else w.randint(4, 7)
    pifaces = _dag(w, nP, 2)
    ncls = w.randint(1, 3)
    classes = []
    for c in range(ncls):
        classes.append({'bases': w.sample(range(c), min(c, w.choice([0, 1, 1, 2]))),
                        'impl': w.sample(range(nRi), w.randint(0, 2))})
    if huge:
        # a class that implements a bare marker first and the bottom of the deep chain second
        classes[0]['impl'] = [w.randrange(3), nRi - 1 - w.randrange(3)]
    nobs = w.randint(1, 3)
    obs = [{'c': w.randrange(ncls), 'dp': w.sample(range(nRi), w.choice([0, 0, 1, 2]))} for _ in range(nobs)]
    if shape == 'chain':
        nR = w.randint(3, 6)
    elif shape == 'dense':
        nR = w.randint(1, 3)
    else:
        nR = w.randint(1, 4)
    flav_mode = w.choice(['A', 'V', 'M'])
    regs = []
    for r in range(nR):
        if flav_mode == 'M':
            fl = 'A' if (r < nR - 1 and w.random() < 0.7) else 'V'
        else:
            fl = flav_mode
        regs.append({'flav': fl, 'bases': []})
    # bases: an invalidating registry may only have invalidating bases
    linear = shape == 'chain' and w.random() < 0.4        # a plain chain bottom -> ... -> top: the deepest shape for its size
    for r in range(nR):
        cands = [b for b in range(r) if regs[r]['flav'] == 'V' or regs[b]['flav'] == 'A']
        if linear:
            regs[r]['bases'] = [r - 1] if (r - 1) in cands else []
            continue
        if shape == 'chain' and cands:
            k = w.choice([1, 1, 2, 2])
        else:
            k = w.choice([0, 1, 1, 2])
        regs[r]['bases'] = w.sample(cands, min(k, len(cands)))
    nvals = 6
    vals = []
    for v in range(nvals):
        vals.append({'eq': None, 'ret': w.choice(['made', 'made', 'made', 'falsy', 'none'])})
    vals[4]['falsy'] = True           # a registered value / factory / subscriber that is false in a boolean context
    vals.append({'eq': 'e', 'ret': 'made'})
    vals.append({'eq': 'e', 'ret': 'made'})
    if mode.get('raising_factories'):
        vals.append({'eq': None, 'ret': 'raise'})
    nSP = nRi + ncls + 1              # registration key pool: R ifaces, class specs, Interface
    nLK = nSP + nobs                  # lookup key pool adds providedBy(instance)

    def req(ar, pool):
        return [o.randrange(pool) for _ in range(ar)]

    def arity():
        return o.choice([0, 1, 1, 1, 2, 2, 3]) if not big else o.choice([1, 2, 3, 4, 5])

    keypool = []
    costly = bool(set(mode.get('props') or ['C05']) & {'C05', 'C08'})       # one or more replayed twins per key and probe
    nkeys = w.randint(4, 8) if (not big or costly) else w.randint(9, 14)
    for _ in range(nkeys):
        ar = w.choice([0, 1, 1, 1, 2, 2, 3]) if shape != 'specdyn' else w.choice([1, 2, 2, 2, 3])
        if big:
            ar = w.choice([1, 2, 3, 4, 5])
        objs = w.random() < 0.35
        keypool.append({'req': [w.randrange(nLK) for _ in range(ar)], 'p': w.randrange(nP + 1),
                        'n': w.randrange(3), 'r': w.randrange(nR), 'objs': objs})
    if huge and keypool:
        keypool[0] = dict(keypool[0], req=[nRi] + keypool[0]['req'][1:2], objs=False)      # LK index nRi is the class specification K0
    ops = []
    probe_p = w.choice([15, 30, 60]) if shape != 'specdyn' else w.choice([60, 90])
    gc_rate = w.choice([0.0, 0.03, 0.08])
    perm_rate = w.choice([0.0, 0.04])
    if shape == 'dense':
        # one multi-adapter key, registrations on the product of its components' neighbourhoods
        ar = w.choice([2, 2, 3])
        star = [w.randrange(nLK) for _ in range(ar)]
        if huge:
            star[w.randrange(ar)] = nRi        # the class that implements (marker, bottom of the chain): a long order, few keys
        keypool[0] = {'req': star, 'p': w.randrange(nP + 1), 'n': 0, 'r': nR - 1, 'objs': False}
        for j in range(1, min(4, len(keypool))):
            k2 = list(star)
            k2[w.randrange(ar)] = w.randrange(nLK)
            keypool[j] = {'req': k2, 'p': w.randrange(nP + 1), 'n': w.randrange(2), 'r': w.randrange(nR), 'objs': False}
        nreg = w.randint(6, 22) if not huge else w.randint(2, 5)
        for _ in range(nreg):
            k = o.getrandbits(30)
            ops.append({'op': 'reg', 'r': o.randrange(nR), 'req': [o.randrange(nSP) for _ in range(ar)], 'near': star,
                        'p': o.randrange(nP), 'n': o.choice([0, 0, 0, 1]), 'v': o.randrange(len(vals)), 'k': k})
            if huge:
                # (index 1 of the star component's order is the marker, 2 the bottom of the chain: make both likely keys)
                ops[-1]['req'] = [o.choice([1, 2, 2, 3, x]) for x in ops[-1]['req']]
            if o.random() < 0.12:
                ops.append({'op': 'unreg', 'r': o.randrange(nR), 'sel': o.randrange(64), 'how': o.randrange(3), 'k': k})
            if o.random() < 0.2:
                ops.append({'op': 'sub', 'r': o.randrange(nR), 'req': [o.randrange(nSP) for _ in range(ar)], 'near': star,
                            'p': o.randrange(nP + 1) - 1, 'v': o.randrange(len(vals)), 'k': k})
            if o.random() < 0.1:
                ops.append({'op': 'probe', 'k': k})
    else:
        nops = w.randint(8, 36) if not big else (w.randint(30, 70) if not costly else w.randint(20, 44))
        wts = {
            'dynamic': dict(reg=22, unreg=8, sub=10, unsub=6, rbases=6, rebuild=3, irebase=4, cdecl=5, odecl=6, ask=26, dropreg=1, rperm=1),
            'specdyn': dict(reg=20, unreg=3, sub=8, unsub=2, rbases=1, rebuild=0, irebase=14, cdecl=10, odecl=10, ask=30, dropreg=0, rperm=0),
            'chain': dict(reg=22, unreg=6, sub=8, unsub=4, rbases=16, rebuild=5, irebase=1, cdecl=1, odecl=1, ask=26, dropreg=2, rperm=6),
            'subs': dict(reg=4, unreg=2, sub=34, unsub=18, rbases=4, rebuild=2, irebase=2, cdecl=2, odecl=2, ask=14, dropreg=0),
            'book': dict(reg=30, unreg=16, sub=18, unsub=12, rbases=2, rebuild=6, irebase=0, cdecl=0, odecl=0, ask=8, dropreg=0),
        }[shape]
        if mode.get('no_rebuild'):
            wts['rebuild'] = 0
        kinds = list(wts)
        weights = [wts[k] for k in kinds]
        mortal_world = h64(seed, 'mortal-values-world') % 3 == 0
        # swarm knob: concentrate registrations of all registries around one key asked from the bottom registry
        focus_p = w.choice([0.0, 0.4, 0.7])
        if focus_p:
            keypool[0]['r'] = nR - 1

        def fromkey():
            return 0 if o.random() < focus_p else o.randrange(64)
        if shape == 'specdyn' and len(keypool) >= 2:
            # two keys that share their first component: a single-adapter key and a multi-adapter key that starts with it, so
            # that the lookup object already tracks the first specification when the longer key is asked for the first time
            keypool[0] = dict(keypool[0], req=keypool[0]['req'][:1] or [w.randrange(nLK)])
            keypool[1] = dict(keypool[1], req=keypool[0]['req'][:1] + (keypool[1]['req'][1:] or [w.randrange(nLK)]), r=keypool[0]['r'])
        for _ in range(nops):
            k = o.getrandbits(30)
            if shape == 'chain' and o.random() < 0.12:
                # a change in registry X itself (its caches are empty afterwards), then a re-basing of one of X's bases, then
                # the probe with no lookup in between: the first lookup after the re-basing has to notice it
                x = o.randrange(nR)
                pair = [{'op': 'reg', 'r': x, 'req': req(5, 64), 'p': o.randrange(nP), 'n': o.randrange(3),
                         'v': o.randrange(len(vals)), 'k': k, 'fromkey': fromkey(), 'samepn': True},
                        {'op': 'rbases', 'r': o.randrange(nR), 'base_of': x, 'bases': [o.randrange(nR) for _ in range(o.choice([1, 1, 2]))], 'k': k}]
                if o.random() < 0.5:
                    pair.reverse()          # ... or the re-basing above first and the own change second
                ops.extend(pair)
                ops.append({'op': 'probe', 'k': k})
                continue
            if shape == 'chain' and o.random() < 0.06:
                # a lookup from X, then a re-basing of a registry above X, then a change of what a required specification of the
                # same key extends, with no lookup in between, then the probe
                x = o.randrange(nR)
                ops.append({'op': 'ask', 'e': o.randrange(len(ENTRIES)), 'key': 0, 'k': k, 'exact': True})
                ops.append({'op': 'rbases', 'r': o.randrange(nR), 'base_of': keypool[0]['r'] if o.random() < 0.7 else x,
                            'bases': [o.randrange(nR) for _ in range(o.choice([1, 1, 2]))], 'k': k})
                ops.append({'op': 'specmut', 'key': 0, 'pos': o.randrange(0, 3), 'bases': [o.randrange(nRi) for _ in range(o.choice([0, 1, 2]))],
                            'xs': o.sample(range(nRi), min(nRi, o.randint(0, 2))), 'only': o.random() < 0.4, 'also': o.random() < 0.3, 'k': k})
                ops.append({'op': 'probe', 'k': k})
                continue
            if shape in ('chain', 'dynamic') and o.random() < 0.04:
                ops.append({'op': 'flaky', 'r': o.randrange(nR), 'sel': o.randrange(8), 'v': o.randrange(len(vals)),
                            'key': 0 if o.random() < 0.6 else o.randrange(64), 'k': k})
                ops.append({'op': 'probe', 'k': k})
                continue
            if shape in ('chain', 'dynamic') and o.random() < 0.03:
                # fault `address-reuse`: a registry that others are based on is discarded and collected, a new registry takes its
                # place (and, if the allocator plays along, its address), and then goes through as many changes as the old one had
                ops.append({'op': 'replacereg', 'r': o.randrange(nR), 'v': o.randrange(len(vals)), 'key': 0 if o.random() < 0.6 else o.randrange(64), 'k': k})
                ops.append({'op': 'probe', 'k': k})
                continue
            if o.random() < 0.03:
                # fault `address-reuse` for provided interfaces: a short-lived equal-named twin of a provided interface is used
                # for lookups, dropped and collected; a brand-new, unrelated interface takes its address (if the allocator plays
                # along) and is looked up next, with no change of the registry in between
                ops.append({'op': 'pchurn', 'key': o.randrange(64), 'r': o.randrange(nR), 'k': k})
                continue
            if shape in ('chain', 'dynamic', 'subs') and o.random() < 0.03:
                ops.append({'op': 'regen', 'r': o.randrange(nR), 'v': o.randrange(len(vals)), 'key': 0 if o.random() < 0.6 else o.randrange(64), 'k': k})
                ops.append({'op': 'probe', 'k': k})
                continue
            if shape == 'chain' and o.random() < 0.1:
                # the order of the bases of a registry that has several is reversed (nothing else changes), or the top-most
                # registry above X gets other bases (a join below it has to follow), then the probe
                if o.random() < 0.5:
                    ops.append({'op': 'rbases', 'r': o.randrange(nR), 'bases': [], 'reorder': True, 'pick_multi': True, 'k': k})
                else:
                    ops.append({'op': 'rbases', 'r': o.randrange(nR), 'top_of': o.randrange(nR),
                                'bases': [o.randrange(nR) for _ in range(o.choice([0, 1, 1, 2]))], 'k': k})
                ops.append({'op': 'probe', 'k': k})
                continue
            if shape == 'chain' and o.random() < 0.1:
                # changes in two different registries above X, alternating, with a lookup from X after each: whatever tells X's
                # caches about changes above must tell the two origins apart
                x = o.randrange(nR)
                for j in (0, 1, 0, 1)[:o.choice([2, 3, 4])]:
                    ops.append({'op': 'reg', 'r': x, 'anc_of': x, 'anc_i': j + o.choice([0, 0, 1]), 'req': req(5, 64), 'p': o.randrange(nP),
                                'n': o.randrange(3), 'v': o.randrange(len(vals)), 'k': o.getrandbits(30), 'fromkey': fromkey(), 'samepn': True})
                    ops.append({'op': 'probe', 'k': o.getrandbits(30)})
                continue
            if shape == 'specdyn' and o.random() < 0.2:
                # lookup of the short key, lookup of the long key, then a change of what a *later* component of the long key
                # extends, then the probe: the pairing (earlier lookup, later specification change) the property quantifies over
                kl = 1 if len(keypool) >= 2 else 0
                if o.random() < 0.7:
                    # something registered in the neighbourhood of the long key, so that the change can alter the answer
                    ops.append({'op': 'reg', 'r': o.randrange(nR), 'req': req(5, 64), 'p': o.randrange(nP), 'n': o.randrange(3),
                                'v': o.randrange(len(vals)), 'k': k, 'fromkey': kl, 'samepn': o.random() < 0.8})
                ops.append({'op': 'ask', 'e': o.choice([0, 1, 5, 6]), 'key': 0, 'k': k, 'exact': True})
                ops.append({'op': 'ask', 'e': o.randrange(len(ENTRIES)), 'key': kl, 'k': k, 'exact': True})
                ops.append({'op': 'specmut', 'key': kl, 'pos': o.randrange(1, 4), 'bases': [o.randrange(nRi) for _ in range(o.choice([0, 1, 2]))],
                            'xs': o.sample(range(nRi), o.randint(0, 2)), 'only': o.random() < 0.4, 'also': o.random() < 0.3, 'k': k})
                ops.append({'op': 'probe', 'k': k})
                continue
            if shape in ('subs', 'book', 'dynamic') and mortal_world and o.random() < 0.07:
                # fault `finalizer-reenters-mutator`: a registered value whose only owner is the registry dies in the middle
                # of the mutator that releases it, and its finalizer registers a successor in the same registry
                ops.append({'op': 'mortal', 'form': o.choice(['sub', 'sub', 'reg']), 'r': o.randrange(nR), 'req': req(arity(), nSP + 1),
                            'p': o.randrange(nP), 'n': o.randrange(3), 'v': o.randrange(len(vals)), 'how': o.randrange(3),
                            'cached': o.random() < 0.3, 'sreq': req(arity(), nSP + 1), 'ssame': o.choice([0, 1, 1, 2]),
                            'sp': o.randrange(nP), 'sform': o.choice(['sub', 'sub', 'reg']), 'sv': o.randrange(len(vals)),
                            'extra': o.random() < 0.5, 'k': k})
                if o.random() < 0.5:
                    ops.append({'op': 'unsub', 'r': ops[-1]['r'], 'sel': o.randrange(64), 'how': 0, 'k': k})
                continue
            if o.random() < gc_rate:
                ops.append({'op': 'gc', 'k': k})
            if o.random() < perm_rate:
                ops.append({'op': 'perm', 'r': o.randrange(nR), 'ps': o.getrandbits(30), 'k': k})
            kind = o.choices(kinds, weights)[0]
            if kind == 'reg':
                ops.append({'op': 'reg', 'r': o.randrange(nR), 'req': req(arity(), nSP + 1), 'p': o.randrange(nP),
                            'n': o.randrange(3), 'v': o.randrange(len(vals)), 'k': k})
                if o.random() < 0.55:
                    # register in the neighbourhood of a key of the pool, so that lookups hit and registries collide on keys
                    ops[-1].update({'fromkey': fromkey(), 'req': req(5, 64), 'samepn': o.random() < 0.7})
            elif kind == 'unreg':
                ops.append({'op': 'unreg', 'r': o.randrange(nR), 'sel': o.randrange(64), 'how': o.randrange(4), 'k': k})
            elif kind == 'sub':
                ops.append({'op': 'sub', 'r': o.randrange(nR), 'req': req(arity(), nSP + 1), 'p': o.randrange(nP + 1) - 1,
                            'v': o.randrange(len(vals)), 'k': k})
                if o.random() < 0.55:
                    ops[-1].update({'fromkey': fromkey(), 'req': req(5, 64), 'samepn': o.random() < 0.7})
            elif kind == 'unsub':
                ops.append({'op': 'unsub', 'r': o.randrange(nR), 'sel': o.randrange(64), 'how': o.randrange(4), 'k': k})
            elif kind == 'rbases':
                ops.append({'op': 'rbases', 'r': o.randrange(nR), 'bases': [o.randrange(nR) for _ in range(o.choice([0, 1, 1, 2]))], 'k': k})
            elif kind == 'rperm':
                ops.append({'op': 'rbases', 'r': o.randrange(nR), 'bases': [], 'reorder': True, 'k': k})
            elif kind == 'rebuild':
                ops.append({'op': 'rebuild', 'r': o.randrange(nR), 'k': k})
            elif kind == 'irebase':
                ops.append({'op': 'irebase', 'i': o.randrange(nRi), 'bases': [o.randrange(nRi) for _ in range(o.choice([0, 1, 2]))], 'k': k})
            elif kind == 'cdecl':
                ops.append({'op': 'cdecl', 'c': o.randrange(ncls), 'xs': o.sample(range(nRi), o.randint(0, 2)), 'only': o.random() < 0.3, 'k': k})
            elif kind == 'odecl':
                ops.append({'op': 'odecl', 'o': o.randrange(nobs), 'xs': o.sample(range(nRi), o.randint(0, 2)), 'also': o.random() < 0.4, 'k': k})
            elif kind == 'dropreg':
                ops.append({'op': 'dropreg', 'r': o.randrange(nR), 'k': k})
            else:
                ops.append({'op': 'ask', 'e': o.randrange(len(ENTRIES)), 'key': o.randrange(len(keypool)), 'k': k})
    return {'machine': MACHINE, 'seed': seed,
            'world': {'rifaces': rifaces, 'pifaces': pifaces, 'classes': classes, 'obs': obs, 'regs': regs, 'vals': vals,
                      'keypool': keypool, 'probe_p': probe_p, 'shape': shape},
            'ops': ops}


# --------------------------------------------------------------------------
# execution
# --------------------------------------------------------------------------

class Boom(Exception):
    pass


class LibRaised(Exception):
    """an exception that came out of a call into the library made by one of the call helpers (an exception raised by the C
    extension has no Python frame inside zope/interface, so the traceback alone cannot tell it from a harness error)"""

    def __init__(self, exc):
        Exception.__init__(self, repr(exc))
        self.exc = exc


def libcall(fn):
    def wrapper(*a, **k):
        try:
            return fn(*a, **k)
        except (Boom, Stop, LibRaised):
            raise
        except Exception as e:        # noqa
            raise LibRaised(e)
    wrapper.__name__ = fn.__name__
    return wrapper


class Falsy:
    """what a factory may legitimately return: an adapter that is false in a boolean context (empty container)"""

    def __init__(self, *parts):
        self.parts = parts

    def __bool__(self):
        return False

    def __len__(self):
        return 0

    def __eq__(self, other):
        return isinstance(other, Falsy) and self.parts == other.parts

    def __ne__(self, other):
        return not self.__eq__(other)

    def __hash__(self):
        return hash(self.parts)

    def __repr__(self):
        return 'Falsy%r' % (self.parts,)


class SuperSub(super):
    """a cooperative-call proxy type derived from the builtin super"""


class StrSub(str):
    """a name that is an instance of a subclass of str (equal to, and hashing like, the plain string)"""


class Dflt:
    """a default object handed to one call; it must come back by identity from that call and from no other"""

    def __repr__(self):
        return 'DFLT'


def execute(program, ctx, mode):
    from zope.interface import (Interface, implementedBy, providedBy, classImplements, classImplementsOnly,
                                directlyProvides, alsoProvides)
    from zope.interface.interface import InterfaceClass
    from zope.interface.adapter import AdapterRegistry, VerifyingAdapterRegistry

    props = set(mode.get('props') or ['C04', 'C05', 'C06', 'C07', 'C08', 'C09'])
    # swarm knob (one world in four): one of the names is not in Unicode normal form C ("e" + combining acute, as file systems
    # and browsers produce) -- a name is a key as it stands, in every method alike
    NAMES = ['', 'a', 'e\u0301' if h64(program.get('seed') or 0, 'non-nfc-name') % 4 == 0 else 'b']
    W = program['world']
    probe_p = W.get('probe_p', 30)
    calls = []

    class Val:
        def __init__(self, n, spec):
            self.n = n
            self.eq = spec.get('eq')
            self.ret = spec.get('ret', 'made')
            self.falsy = bool(spec.get('falsy'))

        def __bool__(self):
            return not self.falsy

        def __eq__(self, other):
            return self is other or (self.eq is not None and getattr(other, 'eq', None) == self.eq)

        def __ne__(self, other):
            return not self.__eq__(other)

        def __hash__(self):
            return hash(self.eq) if self.eq is not None else 7 + self.n

        def __call__(self, *objs):
            calls.append((self.n, tuple(olab(x) for x in objs)))
            if self.ret == 'none':
                return None
            if self.ret == 'raise':
                raise Boom(self.n)
            if self.ret == 'falsy':
                return Falsy('made', self.n, *[olab(x) for x in objs])
            return ('made', self.n) + tuple(olab(x) for x in objs)

        def __repr__(self):
            return 'V%d' % self.n if not self.falsy else 'V%d(falsy)' % self.n

    class Mortal(Val):
        """a value the simulator keeps no reference to: it dies when the registry lets go of it, and its finalizer re-enters
        the registry (fault `finalizer-reenters-mutator`)"""
        fin = None

        def __del__(self):
            f, self.fin = self.fin, None
            if f is not None:
                f()

        def __repr__(self):
            return 'M%d' % self.n

    R = []
    for i, bs in enumerate(W['rifaces']):
        R.append(InterfaceClass('R%d' % i, tuple(R[b] for b in bs) or (Interface,), {}, __module__='zisim.r'))
    rib = {i: list(bs) for i, bs in enumerate(W['rifaces'])}
    P = []
    for i, bs in enumerate(W['pifaces']):
        P.append(InterfaceClass('P%d' % i, tuple(P[b] for b in bs) or (Interface,), {}, __module__='zisim.r'))
    nP = len(P)
    # swarm knob (one world in four): every provided interface has a second, equal-named object (`class IEvent(Interface)`
    # executed twice, a reloaded module).  Interfaces compare and hash by (name, module), so the two are interchangeable as the
    # `provided` argument of every mutator and lookup; which one is handed in rotates.  (Provided interfaces are never re-based
    # or dropped here, so the pair never meets the weak dependents maps.)
    ptwin_world = h64(program.get('seed') or 0, 'equal-named-provided-twins') % 4 == 0
    P2 = [InterfaceClass('P%d' % i, tuple(P[b] for b in bs) or (Interface,), {}, __module__='zisim.r')
          for i, bs in enumerate(W['pifaces'])] if ptwin_world else P
    provno = [0]

    def PP(p):
        provno[0] += 1
        if ptwin_world and provno[0] % 3 == 0:
            ctx.probe('equal-named-twin-handed-in-as-provided')
            return P2[p]
        return P[p]
    pext = []
    for i, bs in enumerate(W['pifaces']):
        s = {i}
        for b in bs:
            s |= pext[b]
        pext.append(s)
    classes = []
    for c, cd in enumerate(W['classes']):
        cls = None
        bl = [classes[b] for b in cd['bases']]
        for attempt in (bl, bl[:1], []):
            try:
                cls = type('RK%d' % c, tuple(attempt) or (object,), {'__module__': 'zisim.r'})
                break
            except TypeError:
                continue
        classImplements(cls, *[R[x] for x in cd['impl']])
        classes.append(cls)
    obs = []
    for od in W['obs']:
        ob = classes[od['c'] % len(classes)]()
        if od['dp']:
            directlyProvides(ob, *[R[x] for x in od['dp']])
        obs.append(ob)
    obj_lab = {id(ob): 'O%d' % i for i, ob in enumerate(obs)}
    kinst = [cls() for cls in classes]       # undeclared instances: providedBy(k) is implementedBy(cls)
    for i, k in enumerate(kinst):
        obj_lab[id(k)] = 'KI%d' % i

    def olab(x):
        return obj_lab.get(id(x), type(x).__name__)

    vals = [Val(i, vs) for i, vs in enumerate(W['vals'])]
    nRi, ncls, nobs = len(R), len(classes), len(obs)
    SP = ['R%d' % i for i in range(nRi)] + ['K%d' % c for c in range(ncls)] + ['Interface']
    LK = SP + ['O%d' % i for i in range(nobs)]

    def spec_of(lbl):
        if lbl == 'Interface' or lbl is None:
            return Interface
        t, i = lbl[0], int(lbl[1:])
        if t == 'R':
            return R[i]
        if t == 'K':
            return implementedBy(classes[i])
        return providedBy(obs[i])

    def obj_of(lbl):
        if lbl == 'Interface':
            return None
        t, i = lbl[0], int(lbl[1:])
        if t == 'K':
            return kinst[i]
        if t == 'O':
            return obs[i]
        return None

    def prov(p):
        """p index -> provided interface (None for handlers, Interface for index nP)"""
        if p is None or p < 0:
            return None
        return PP(p) if p < nP else Interface

    def p_matches(p2, p):
        """does registered provided p2 satisfy requested p?"""
        if p is None or p2 is None:
            return p is None and p2 is None
        if p >= nP:
            return True
        return p in pext[p2]

    # ---- registries ---------------------------------------------------------
    RD = W['regs']
    nR = len(RD)

    class Unreadable(Exception):
        pass

    class FlakyV(VerifyingAdapterRegistry):
        """a verifying registry whose change counter can be made unreadable for a moment (think of a persistent registry
        whose state cannot be loaded): used by the `flaky` operation, otherwise an ordinary VerifyingAdapterRegistry"""
        def _get_generation(self):
            if self.__dict__.get('_unreadable'):
                raise Unreadable()
            return self.__dict__.get('_gen', 0)

        def _set_generation(self, v):
            self.__dict__['_gen'] = v
        _generation = property(_get_generation, _set_generation)
    flaky_world = h64(program.get('seed') or 0, 'flaky-world') % 3 == 0
    VClass = FlakyV if flaky_world else VerifyingAdapterRegistry

    # Fault `cb-reenter` at the registry level (one world in three): some push registries are instances of a subclass whose
    # changed() -- the notification a registry above sends down -- looks a few keys up in the registry itself, right there
    # (a change listener that refreshes something derived).  Whatever it caches at that moment must be gone, or right, once the
    # operation that caused the notification is over: the ordinary probes judge that.  Cold twins are plain registries.
    spy_reg_world = h64(program.get('seed') or 0, 'listening-registries') % 3 == 0
    spy_armed = [False]
    spy_mutation = [None]       # armed by some register / unregister operations: (value index, key index)
    spy_written = set()         # keys the listener wrote during the current operation (it wrote last)

    class SpyA(AdapterRegistry):
        _zisim_r = None

        def changed(self, originally_changed):
            AdapterRegistry.changed(self, originally_changed)
            if not spy_armed[0]:
                return
            spy_armed[0] = False            # (no lookups from inside the lookups' own notifications)
            try:
                ctx.fault('cb-reenter-lookup-in-registry-notification')
                for key in W['keypool'][:3]:
                    try:
                        specs = key_specs(key)
                    except Exception:       # noqa: a key whose component is being re-declared right now
                        continue
                    pr = PP(key['p'] % nP) if key['p'] % (nP + 1) < nP else Interface
                    self.lookup(specs, pr, NAMES[key['n'] % 3])
                    self.lookupAll(specs, pr)
                    self.subscriptions(specs, pr)
                # (after the lookups: what they cached must not outlive the change made here)
                sm, spy_mutation[0] = spy_mutation[0], None
                r_ = self._zisim_r
                if sm is not None and r_ is not None and regs[r_] is self and rb.get(r_) and originally_changed is not self:
                    # ... and, now and then, the listener registers something in the registry right above it (the model and the
                    # mutation log are brought up to date here, at the moment it happens)
                    b_ = rb[r_][0]
                    fk_ = W['keypool'][sm[1] % len(W['keypool'])]
                    rq_ = tuple(norm([SP[x % len(SP)] if LK[x % len(LK)] not in SP else LK[x % len(LK)] for x in fk_['req']]))
                    pp_ = fk_['p'] % (nP + 1)
                    pp_ = pp_ if pp_ < nP else 0
                    nm_ = NAMES[fk_['n'] % 3]
                    v_ = vals[sm[0] % len(vals)]
                    ctx.fault('cb-reenter-registration-in-registry-notification')
                    mutate(('reg', b_, real_req(rq_), PP(pp_), nm_, v_))
                    live[(b_, rq_, pp_, nm_)] = v_
                    spy_written.add((b_, rq_, pp_, nm_))
            finally:
                spy_armed[0] = True

    def mkregs(plain=False):
        out = []
        for r in range(nR):
            if RD[r]['flav'] == 'A':
                out.append((SpyA if (spy_reg_world and not plain and r % 2 == 1) else AdapterRegistry)())
                if isinstance(out[-1], SpyA):
                    out[-1]._zisim_r = r
            else:
                out.append(VClass())
        return out

    regs = mkregs()
    spy_armed[0] = spy_reg_world
    rb = {r: [] for r in range(nR)}
    alive = [True] * nR
    mutlog = []         # replayable registry mutations (real objects inside)

    applyno = [0]

    def shaped(req):
        """the `required` argument of a mutator as a tuple, a list, a one-shot iterator or a generator, in rotation"""
        applyno[0] += 1
        sh = applyno[0] % 4
        if sh == 1:
            return list(req)
        if sh == 2:
            return iter(list(req))
        if sh == 3:
            return (x for x in list(req))
        return tuple(req)

    def apply(rs, m):
        k = m[0]
        if k == 'reg':
            rs[m[1]].register(shaped(m[2]), m[3], m[4], m[5])
        elif k == 'unreg':
            rs[m[1]].unregister(shaped(m[2]), m[3], m[4], m[5])
        elif k == 'sub':
            rs[m[1]].subscribe(shaped(m[2]), m[3], m[4])
        elif k == 'unsub':
            rs[m[1]].unsubscribe(shaped(m[2]), m[3], m[4])
        elif k == 'bases':
            rs[m[1]].__bases__ = tuple(rs[b] for b in m[2])
        elif k == 'rebuild':
            rs[m[1]].rebuild()

    def mutate(m):
        # (logged first: a mutation made from inside this one's notifications comes after it in the log, as it does in time)
        mutlog.append(m)
        try:
            apply(regs, m)
        except BaseException:
            for i_ in range(len(mutlog) - 1, -1, -1):
                if mutlog[i_] is m:
                    del mutlog[i_]
                    break
            raise

    def twin():
        t = mkregs(plain=True)
        for m in mutlog:
            apply(t, m)
        ctx.probe('cold-twin')
        return t

    # ---- model ------------------------------------------------------------------
    live = {}       # (r, req labels, p, name) -> Val
    subs = []       # (r, req labels, p|None, Val) in subscription order

    def norm(req):
        return tuple('Interface' if x is None else x for x in req)

    def real_req(req):
        return tuple(None if x is None else spec_of(x) for x in req)

    def real_req_none(req, salt):
        """the same key as a caller may spell it: None stands for Interface at any position (PRNG-chosen per position)"""
        return tuple(None if (x == 'Interface' and (h64(salt, j) & 1)) else spec_of(x) for j, x in enumerate(req))

    def ro_of(r):
        return c3(r, rb)

    def model_lookup(r, specs, p, name):
        """-> list of acceptable values ([None] when nothing applies)"""
        pos = [{id(s): k for k, s in enumerate(sp.__sro__)} for sp in specs]
        n = len(specs)
        for rr in ro_of(r):
            cands = []
            for (r2, q, p2, n2), v in live.items():
                if r2 != rr or n2 != name or len(q) != n or not p_matches(p2, p):
                    continue
                rank = []
                for k in range(n):
                    x = pos[k].get(id(spec_of(q[k])))
                    if x is None:
                        rank = None
                        break
                    rank.append(x)
                if rank is None:
                    continue
                cands.append((tuple(rank), p2, v))
            if cands:
                m = min(c[0] for c in cands)
                top = [c for c in cands if c[0] == m]
                gen = [c for c in top if not any(c2[1] != c[1] and c2[1] in pext[c[1]] for c2 in top)]
                return [c[2] for c in gen]
        return [None]

    def model_names(r, specs, p):
        out = {}
        for name in NAMES:
            acc = model_lookup(r, specs, p, name)
            if acc != [None]:
                out[name] = acc
        return out

    def model_subs(r, specs, p):
        """-> list of (registry, {key: [(p2, v)...]}) blocks, base registries first"""
        n = len(specs)
        out = []
        for rr in reversed(ro_of(r)):
            keyed = {}
            for (r2, q, p2, v) in subs:
                if r2 != rr or len(q) != n or not p_matches(p2, p):
                    continue
                if all(specs[k].isOrExtends(spec_of(q[k])) for k in range(n)):
                    keyed.setdefault(q, []).append((p2, v))
            out.append((rr, keyed))
        return out

    def ids(xs):
        return sorted(id(x) for x in xs)

    def check_subs_against_model(prop, got, r, specs, p, where):
        exp = model_subs(r, specs, p)
        flat = [v for rr, keyed in exp for q, lst in keyed.items() for (_p, v) in lst]
        if ids(got) != ids(flat):
            extra = len(got) - len(flat)
            ctx.violation(prop, 'subscriptions-multiset', '%s|subscriptions|multiset|%s|%s' % (
                prop, 'extra' if extra > 0 else ('missing' if extra < 0 else 'different'), where),
                {'r': r, 'p': p, 'got': repr(got), 'want': repr(flat), 'rb': dict(rb)})
            return
        if prop not in ('C07', 'C06'):
            return
        i = 0
        for rr, keyed in exp:
            cnt = sum(len(l) for l in keyed.values())
            blk = got[i:i + cnt]
            i += cnt
            if ids(blk) != ids(v for l in keyed.values() for (_p, v) in l):
                ctx.violation(prop, 'subscriptions-registry-order', '%s|subscriptions|order|base-registries-first|%s' % (prop, where),
                              {'r': r, 'got': repr(got), 'ro': ro_of(r)})
                return
            if not keyed or prop != 'C07':
                continue
            # position of each value occurrence inside the block, per key
            # (values are matched greedily by identity; duplicates are interchangeable)
            where_of = {}
            used = [False] * len(blk)
            okeys = list(keyed)
            for q in okeys:
                for (_p, v) in keyed[q]:
                    for j, x in enumerate(blk):
                        if not used[j] and x is v:
                            used[j] = True
                            where_of.setdefault(q, []).append(j)
                            break
            sros = [[id(s) for s in sp.__sro__] for sp in specs]

            def less_specific(q1, q2):
                """q1 component-wise at least as general as q2, and different"""
                if q1 == q2:
                    return False
                for k in range(len(specs)):
                    a, b = sros[k].index(id(spec_of(q1[k]))), sros[k].index(id(spec_of(q2[k])))
                    if a < b:
                        return False
                return True
            dup = len({id(v) for l in keyed.values() for (_p, v) in l}) != cnt
            if not dup:
                for q1 in okeys:
                    for q2 in okeys:
                        if less_specific(q1, q2) and max(where_of[q1]) > min(where_of[q2]):
                            ctx.violation('C07', 'subscriptions-specificity-order',
                                          'C07|subscriptions|order|less-specific-first|arity%d' % len(specs),
                                          {'r': r, 'got': repr(blk), 'q1': q1, 'q2': q2})
                            return
                # identical key (required and provided): subscription order
                for q in okeys:
                    byp = {}
                    for (p2, v) in keyed[q]:
                        byp.setdefault(p2, []).append(v)
                    for p2, want in byp.items():
                        have = [x for x in blk if any(x is y for y in want)]
                        if [id(x) for x in have] != [id(x) for x in want]:
                            ctx.violation('C07', 'subscriptions-subscription-order', 'C07|subscriptions|order|subscription-order',
                                          {'r': r, 'got': repr(have), 'want': repr(want)})
                            return

    # ---- asking -----------------------------------------------------------------
    def key_specs(key):
        return [spec_of(LK[x % len(LK)]) for x in key['req']]

    def key_objs(key):
        """objects whose providedBy is the key's specs, or None when some component is a bare interface"""
        out = []
        for x in key['req']:
            ob = obj_of(LK[x % len(LK)])
            if ob is None:
                return None
            out.append(ob)
        return out

    class LazySeq:
        """a `required` argument that is only an iterable (consumed once per iteration)"""

        def __init__(self, items):
            self.items = list(items)

        def __iter__(self):
            return iter(self.items)

    askno = [0]

    @libcall
    def ask(rs, key, e, default=None, name=None):
        reg = rs[key['r'] % nR]
        specs = key_specs(key)
        # the shape of the `required` argument rotates: list, tuple, one-shot generator, plain iterable
        askno[0] += 1
        shape_ = askno[0] % 4
        if shape_ == 1:
            specs_arg = tuple(specs)
        elif shape_ == 2:
            specs_arg = (x for x in list(specs))
        elif shape_ == 3:
            specs_arg = LazySeq(specs)
        else:
            specs_arg = specs
        p = key['p'] % (nP + 1)
        pi = prov(p)
        nm = NAMES[key['n'] % 3] if name is None else name
        kind = ENTRIES[e]
        if kind in ('queryAdapter', 'adapter_hook', 'queryMultiAdapter', 'subscribers'):
            objs = key_objs(key)
            if objs is None or (kind in ('queryAdapter', 'adapter_hook') and len(objs) != 1):
                kind = {'queryAdapter': 'lookup', 'adapter_hook': 'lookup', 'queryMultiAdapter': 'lookup',
                        'subscribers': 'subscriptions'}[kind] if objs is None else 'queryMultiAdapter'
        if kind == 'lookup1' and len(specs) != 1:
            kind = 'lookup'
        # the call style rotates too: positional arguments, keyword arguments, name / default left out where that means
        # the same, a str subclass instance as the name
        style = (askno[0] // 4) % 4
        if style == 3 and isinstance(nm, str):
            nm = StrSub(nm)
        if style == 1:
            if kind == 'lookup':
                return kind, reg.lookup(required=specs_arg, provided=pi, name=nm, default=default)
            if kind == 'lookup1':
                return kind, reg.lookup1(required=specs[0], provided=pi, name=nm, default=default)
            if kind == 'lookupAll':
                return kind, sorted(reg.lookupAll(required=specs_arg, provided=pi), key=lambda kv: kv[0])
            if kind == 'names':
                return kind, sorted(reg.names(required=specs_arg, provided=pi))
            if kind == 'subscriptions':
                return kind, list(reg.subscriptions(required=specs_arg, provided=pi))
            if kind == 'queryAdapter':
                return kind, reg.queryAdapter(object=objs[0], provided=pi, name=nm, default=default)
            if kind == 'adapter_hook':
                return kind, reg.adapter_hook(provided=pi, object=objs[0], name=nm, default=default)
            if kind == 'queryMultiAdapter':
                return kind, reg.queryMultiAdapter(objects=objs, provided=pi, name=nm, default=default)
            if kind == 'subscribers':
                return kind, reg.subscribers(objects=objs, provided=pi)
        if style == 2 and default is None:
            tail = () if nm == '' else (nm,)          # name '' and default None are the defaults: leave them out
            if kind == 'lookup':
                return kind, reg.lookup(specs_arg, pi, *tail)
            if kind == 'lookup1':
                return kind, reg.lookup1(specs[0], pi, *tail)
            if kind == 'queryAdapter':
                return kind, reg.queryAdapter(objs[0], pi, *tail)
            if kind == 'adapter_hook':
                return kind, reg.adapter_hook(pi, objs[0], *tail)
            if kind == 'queryMultiAdapter':
                return kind, reg.queryMultiAdapter(objs, pi, *tail)
        if kind == 'lookup':
            return kind, reg.lookup(specs_arg, pi, nm, default)
        if kind == 'lookup1':
            return kind, reg.lookup1(specs[0], pi, nm, default)
        if kind == 'lookupAll':
            return kind, sorted(reg.lookupAll(specs_arg, pi), key=lambda kv: kv[0])
        if kind == 'names':
            return kind, sorted(reg.names(specs_arg, pi))
        if kind == 'subscriptions':
            return kind, list(reg.subscriptions(specs_arg, pi))
        if kind == 'queryAdapter':
            return kind, reg.queryAdapter(objs[0], pi, nm, default)
        if kind == 'adapter_hook':
            return kind, reg.adapter_hook(pi, objs[0], nm, default)
        if kind == 'queryMultiAdapter':
            return kind, reg.queryMultiAdapter(objs, pi, nm, default)
        if kind == 'subscribers':
            return kind, reg.subscribers(objs, pi)
        raise ValueError(kind)

    styleno = [0]

    @libcall
    def lk(reg, specs, pi, nm, *default):
        """reg.lookup(...) as a caller may spell it: positional or keyword arguments, in rotation"""
        styleno[0] += 1
        if styleno[0] % 3 == 1:
            kw = {'required': specs, 'provided': pi, 'name': nm}
            if default:
                kw['default'] = default[0]
            return reg.lookup(**kw)
        if styleno[0] % 3 == 2 and default:
            return reg.lookup(specs, pi, name=nm, default=default[0])
        return reg.lookup(specs, pi, nm, *default)

    @libcall
    def styled(kind, reg, specs, objs, pi, nm, dflt):
        """one of the five single-answer entry points, spelled positionally, with keyword arguments, or with a str-subclass name"""
        styleno[0] += 1
        st = styleno[0] % 3
        if st == 2 and isinstance(nm, str):
            nm = StrSub(nm)
        if st == 1:
            if kind == 'lookup':
                return reg.lookup(required=specs, provided=pi, name=nm, default=dflt)
            if kind == 'lookup1':
                return reg.lookup1(required=specs[0], provided=pi, name=nm, default=dflt)
            if kind == 'queryAdapter':
                return reg.queryAdapter(object=objs[0], provided=pi, name=nm, default=dflt)
            if kind == 'adapter_hook':
                return reg.adapter_hook(provided=pi, object=objs[0], name=nm, default=dflt)
            return reg.queryMultiAdapter(objects=objs, provided=pi, name=nm, default=dflt)
        if kind == 'lookup':
            return reg.lookup(specs, pi, nm, dflt)
        if kind == 'lookup1':
            return reg.lookup1(specs[0], pi, nm, dflt)
        if kind == 'queryAdapter':
            return reg.queryAdapter(objs[0], pi, nm, dflt)
        if kind == 'adapter_hook':
            return reg.adapter_hook(pi, objs[0], nm, dflt)
        return reg.queryMultiAdapter(objs, pi, nm, dflt)

    def same(a, b):
        if isinstance(a, list) and isinstance(b, list):
            return len(a) == len(b) and all(same(x, y) for x, y in zip(a, b))
        if isinstance(a, tuple) and isinstance(b, tuple) and a and isinstance(a[0], str):
            if len(a) == 2 and isinstance(a[1], Val):        # (name, value) pair of lookupAll
                return isinstance(b[1], Val) and a[0] == b[0] and a[1] is b[1]
            return a == b
        if isinstance(a, Val) or isinstance(b, Val):
            return a is b
        return a == b

    def safe_ask(rs, key, e, **kw):
        try:
            return ask(rs, key, e, **kw)
        except Boom:
            return ENTRIES[e], 'Boom'

    def live_keys():
        return [k for k in W['keypool'] if alive[k['r'] % nR]]

    # ---- probes -------------------------------------------------------------------
    def probe(k):
        ctx.probe('probe')
        keys = live_keys()
        if mode.get('log_answers'):
            # differential runs (C10): every entry point's answer for every key goes into the event log
            for key in keys:
                for e in range(len(ENTRIES)):
                    try:
                        kind, a = safe_ask(regs, key, e)
                        ctx.log('answer', kind, key['r'] % nR, [LK[x % len(LK)] for x in key['req']], key['p'] % (nP + 1), key['n'] % 3, a)
                    except Exception as ex:      # noqa
                        ctx.log('answer', ENTRIES[e], 'raise:' + type(ex).__name__)
        c06_twin = twin() if 'C06' in props else None      # one replayed copy per probe (C06 is about the chain, not the caches)
        for ki, key in enumerate(keys):
            r = key['r'] % nR
            specs = key_specs(key)
            p = key['p'] % (nP + 1)
            nm = NAMES[key['n'] % 3]
            if props & {'C04', 'C06'}:
                prop = 'C06' if 'C06' in props else 'C04'
                sources = [('warm', regs)]
                if 'C06' in props:
                    sources.append(('cold', c06_twin))
                for where, rs in sources:
                    acc = model_lookup(r, specs, p, nm)
                    # "... or the default if there is none": two different default objects in a row
                    for _rep in (0, 1):
                        D = object()
                        g2 = lk(rs[r], specs, prov(p), nm, D)
                        if acc == [None] and g2 is not D and g2 is None or (acc == [None] and g2 is not D and not isinstance(g2, Val)):
                            ctx.violation(prop, 'lookup-default', '%s|lookup|default-not-returned-by-identity|%s' % (prop, where),
                                          {'r': r, 'req': [LK[x % len(LK)] for x in key['req']], 'p': p, 'name': nm, 'got': repr(g2)})
                        elif not (g2 is D and acc == [None]) and not any(g2 is a for a in acc):
                            # (these are the first calls after whatever happened before the probe: their answers count too)
                            ctx.violation(prop, 'lookup-vs-model', '%s|lookup|arity%d|%s|%s|first-call-after-the-change' % (
                                prop, len(specs), 'miss' if g2 is D else ('spurious' if acc == [None] else 'wrong-winner'), where),
                                {'r': r, 'req': [LK[x % len(LK)] for x in key['req']], 'p': p, 'name': nm, 'got': repr(g2), 'acceptable': repr(acc)})
                    got = lk(rs[r], specs, prov(p), nm)
                    ctx.state('lookup', len(specs), len(ro_of(r)), len(acc), acc[0] is None)
                    if len(acc) > 1:
                        ctx.probe('ambiguous-provided')
                    if not any(got is a for a in acc):
                        ctx.violation(prop, 'lookup-vs-model', '%s|lookup|arity%d|%s|%s' % (
                            prop, len(specs), 'miss' if got is None else ('spurious' if acc == [None] else 'wrong-winner'), where),
                            {'r': r, 'req': [LK[x % len(LK)] for x in key['req']], 'p': p, 'name': nm, 'got': repr(got),
                             'acceptable': repr(acc), 'rb': dict(rb), 'ro': ro_of(r),
                             'live': sorted((kk, repr(v)) for kk, v in live.items() if len(kk[1]) == len(specs))[:30]})
                    la = dict(rs[r].lookupAll(specs, prov(p)))
                    mn = model_names(r, specs, p)
                    if set(la) != set(mn) or any(not any(la[n] is a for a in mn[n]) for n in la):
                        ctx.violation(prop, 'lookupAll-vs-model', '%s|lookupAll|arity%d|%s' % (prop, len(specs), where),
                                      {'r': r, 'req': [LK[x % len(LK)] for x in key['req']], 'p': p, 'got': repr(la), 'want': repr(mn),
                                       'rb': dict(rb)})
                    for pp in ((p, None) if p < nP else (p,)):
                        gs = list(rs[r].subscriptions(specs, prov(pp)))
                        check_subs_against_model(prop, gs, r, specs, pp, where)
            if 'C07' in props:
                for pp in ((p, None) if p < nP else (p,)):
                    gs = list(regs[r].subscriptions(specs, prov(pp)))
                    ctx.state('subs', len(specs), len(gs), pp is None, len(ro_of(r)))
                    check_subs_against_model('C07', gs, r, specs, pp, 'warm')
            if 'C05' in props:
                salt = h64(k, ki, 'c05')
                # one entry point per cache family (single-required cache / lookupAll cache / subscriptions cache),
                # each on its own fresh twin; the choice rotates with the probe so all nine get covered
                shared_twin = twin() if W.get('shape') in ('chain', 'specdyn') else None
                fams = ((0, 1, 5, 6, 7)[salt % 5], (2, 3)[(salt >> 8) % 2], (4, 8)[(salt >> 12) % 2])
                # (one probe in three asks only through some of the cache families: a family that is never asked between
                #  two changes must still be dropped by each of them)
                sub = (h64(k, 'c05-families') % 9)
                if sub == 0:
                    fams = fams[1:]
                elif sub == 1:
                    fams = fams[2:]
                elif sub == 2:
                    fams = fams[1:2]
                for e in fams:
                    da, db = Dflt(), Dflt()
                    kind, a = safe_ask(regs, key, e, default=da)
                    # (the fault-placement parts use one fresh twin per key for the three cache families -- each family has a
                    # cache of its own, so the twin is still cold for every question it is asked; the main part uses one per question)
                    kind2, b = safe_ask(shared_twin if shared_twin is not None else twin(), key, e, default=db)
                    if a is da:
                        a = 'the-default-of-this-call'
                    if b is db:
                        b = 'the-default-of-this-call'
                    ctx.state('c05', kind, len(specs), a == 'the-default-of-this-call' or a == [])
                    if not same(a, b):
                        ctx.violation('C05', 'warm!=cold', 'C05|%s|warm!=cold|after-%s' % (kind, last_mut[0]),
                                      {'key': key, 'warm': repr(a), 'cold': repr(b), 'last_mutations': [repr(m[:2]) for m in mutlog[-4:]],
                                       'last_spec_mutation': last_mut[1]})
            if 'C08' in props:
                check_entry_points(key, h64(k, ki))
        if 'C09' in props:
            for r in range(nR):
                if alive[r]:
                    check_replay(r)

    def check_entry_points(key, salt):
        r = key['r'] % nR
        specs = key_specs(key)
        p = key['p'] % (nP + 1)
        pi = prov(p)
        nm = NAMES[key['n'] % 3]
        cold = twin()
        f = cold[r].lookup(specs, pi, nm)
        subsl = list(cold[r].subscriptions(specs, pi))
        allnames = {n: cold[r].lookup(specs, pi, n) for n in NAMES}
        allnames = {n: v for n, v in allnames.items() if v is not None}
        objs = key_objs(key)
        order = list(range(len(ENTRIES)))
        random.Random(salt).shuffle(order)
        ctx.state('c08', len(specs), f is None, len(subsl), len(allnames), objs is None)
        for e in order:
            kind = ENTRIES[e]
            dflt = object()      # a different default object on every call: defaults are returned by identity, never cached
            ctx.sig('c08-order', tuple(order[:3]))
            if kind == 'lookup':
                got = styled('lookup', regs[r], specs, objs, pi, nm, dflt)
                want = dflt if f is None else f
                ok = got is want
            elif kind == 'lookup1':
                if len(specs) != 1:
                    continue
                got = styled('lookup1', regs[r], specs, objs, pi, nm, dflt)
                want = dflt if f is None else f
                ok = got is want
            elif kind == 'lookupAll':
                got = dict(regs[r].lookupAll(specs, pi))
                want = allnames
                ok = set(got) == set(want) and all(got[n] is want[n] for n in got)
            elif kind == 'names':
                got = sorted(regs[r].names(specs, pi))
                want = sorted(allnames)
                ok = got == want
            elif kind == 'subscriptions':
                got = list(regs[r].subscriptions(specs, pi))
                want = subsl
                ok = len(got) == len(want) and all(a is b for a, b in zip(got, want))
            elif kind in ('queryAdapter', 'adapter_hook', 'queryMultiAdapter'):
                if objs is None or (kind != 'queryMultiAdapter' and len(objs) != 1):
                    continue
                want = dflt
                wexc = None
                if f is not None:
                    if f.ret == 'raise':
                        wexc = Boom
                    elif f.ret == 'made':
                        want = ('made', f.n) + tuple(olab(x) for x in objs)
                    elif f.ret == 'falsy':
                        want = Falsy('made', f.n, *[olab(x) for x in objs])
                        ctx.fault('factory-falsy')
                del calls[:]
                try:
                    got = styled(kind, regs[r], specs, objs, pi, nm, dflt)
                    gexc = None
                except Boom:
                    got, gexc = None, Boom
                    ctx.fault('factory-raise')
                if f is not None and f.ret == 'none':
                    ctx.fault('factory-none')
                ok = (gexc is wexc) and (wexc is not None or got is want or (want is not dflt and got == want))
                wcalls = [] if f is None else [(f.n, tuple(olab(x) for x in objs))]
                if ok and calls != wcalls:
                    ok = False
                    got = ('calls', list(calls))
                    want = ('calls', wcalls)
                if ok and len(objs) == 1 and type(objs[0]).__mro__[1] is not object:
                    # "a super proxy is replaced by its underlying object": the factory is the one lookup() finds for what the
                    # rest of the MRO implements, and it is called with the object, not the proxy
                    sup = (SuperSub if (salt >> 3) % 2 else super)(type(objs[0]), objs[0])
                    f2 = cold[r].lookup([providedBy(sup)], pi, nm)
                    del calls[:]
                    d2 = object()
                    try:
                        if kind == 'queryAdapter':
                            g2 = regs[r].queryAdapter(sup, pi, nm, d2)
                        elif kind == 'adapter_hook':
                            g2 = regs[r].adapter_hook(pi, sup, nm, d2)
                        else:
                            g2 = regs[r].queryMultiAdapter((sup,), pi, nm, d2)
                        gx = None
                    except Boom:
                        g2, gx = None, Boom
                    ctx.probe('super-proxy-adapted')
                    if f2 is None:
                        ok = g2 is d2 and gx is None and not calls
                    elif f2.ret == 'raise':
                        ok = gx is Boom
                    else:
                        w2 = {'none': d2, 'made': ('made', f2.n, olab(objs[0])), 'falsy': Falsy('made', f2.n, olab(objs[0]))}[f2.ret]
                        ok = gx is None and (g2 is w2 or (w2 is not d2 and g2 == w2)) and calls == [(f2.n, (olab(objs[0]),))]
                    if not ok:
                        got, want = ('super', repr(g2), list(calls)), ('super', repr(f2))
            else:   # subscribers
                if objs is None:
                    continue
                del calls[:]
                try:
                    got = regs[r].subscribers(objs, pi)
                    gexc = None
                except Boom:
                    got, gexc = None, Boom
                want = []
                wexc = None
                wcalls = []
                for s in subsl:
                    wcalls.append((s.n, tuple(olab(x) for x in objs)))
                    if s.ret == 'raise':
                        wexc = Boom
                        break
                    if s.ret == 'made':
                        want.append(('made', s.n) + tuple(olab(x) for x in objs))
                    elif s.ret == 'falsy':
                        want.append(Falsy('made', s.n, *[olab(x) for x in objs]))
                if pi is None:
                    want = ()
                if wexc is not None:
                    ok = gexc is wexc and calls == wcalls
                else:
                    ok = gexc is None and ((got == () or got == []) if pi is None else list(got) == want) and calls == wcalls
                    if pi is None and ok and got not in ((), []):
                        ok = False
            if not ok:
                ctx.violation('C08', 'entry-point', 'C08|%s|disagrees-with-lookup' % kind if kind not in ('subscriptions', 'subscribers')
                              else 'C08|%s|disagrees-with-subscriptions' % kind,
                              {'key': key, 'got': repr(got), 'want': repr(want), 'order': [ENTRIES[x] for x in order]})
        # non-string names are rejected on every path, cached or not
        for bad in (b'x', None, 7):
            for kind in ('lookup', 'lookup1', 'queryAdapter', 'adapter_hook', 'queryMultiAdapter'):
                try:
                    if kind == 'lookup':
                        regs[r].lookup(specs, pi, bad)
                    elif kind == 'lookup1':
                        if len(specs) != 1:
                            continue
                        regs[r].lookup1(specs[0], pi, bad)
                    elif objs is None:
                        continue
                    elif kind == 'queryMultiAdapter':
                        regs[r].queryMultiAdapter(objs, pi, bad)
                    elif len(objs) != 1:
                        continue
                    elif kind == 'queryAdapter':
                        regs[r].queryAdapter(objs[0], pi, bad)
                    else:
                        regs[r].adapter_hook(pi, objs[0], bad)
                    ctx.violation('C08', 'name-check', 'C08|%s|non-string-name-accepted' % kind, {'key': key, 'name': repr(bad)})
                except ValueError:
                    pass
                except Boom:
                    ctx.violation('C08', 'name-check', 'C08|%s|non-string-name-accepted' % kind, {'key': key, 'name': repr(bad)})

    def reg_entries(r):
        return sorted((q, p, n, id(v)) for (r2, q, p, n), v in live.items() if r2 == r)

    def lab_of_spec(s):
        if s is Interface:
            return 'Interface'
        for l in SP[:-1]:
            if spec_of(l) is s:
                return l
        return '?'

    def p_of(pi):
        if pi is None:
            return None
        for i, x in enumerate(P):
            if x is pi or P2[i] is pi:
                return i
        return '?'

    def check_book(r, op_key=None):
        reg = regs[r]
        got = sorted((tuple(lab_of_spec(s) for s in req), p_of(pi), n, id(v)) for req, pi, n, v in reg.allRegistrations())
        want = reg_entries(r)
        ctx.state('book', len(want), len([1 for s in subs if s[0] == r]))
        if got != want:
            ctx.violation('C09', 'allRegistrations', 'C09|allRegistrations|%s' % (
                'extra' if len(got) > len(want) else ('missing' if len(got) < len(want) else 'different')),
                {'r': r, 'got': len(got), 'want': len(want)})
        gs = [(tuple(lab_of_spec(s) for s in req), p_of(pi), v) for req, pi, v in reg.allSubscriptions()]
        ws = [(q, p, v) for (r2, q, p, v) in subs if r2 == r]
        if sorted((a, -1 if b is None else b, id(c)) for a, b, c in gs) != sorted((a, -1 if b is None else b, id(c)) for a, b, c in ws):
            ctx.violation('C09', 'allSubscriptions', 'C09|allSubscriptions|%s' % (
                'extra' if len(gs) > len(ws) else ('missing' if len(gs) < len(ws) else 'different')),
                {'r': r, 'got': repr(gs), 'want': repr(ws)})
        else:
            for key in {(a, b) for a, b, c in ws}:
                if [id(c) for a, b, c in gs if (a, b) == key] != [id(c) for a, b, c in ws if (a, b) == key]:
                    ctx.violation('C09', 'allSubscriptions-order', 'C09|allSubscriptions|order-within-key', {'r': r, 'key': repr(key)})
        keys = set()
        if op_key is not None and len(op_key) == 3:
            keys.add(op_key)
        for kk in list(live)[:6]:
            if kk[0] == r:
                keys.add((kk[1], kk[2], kk[3]))
        for (q, p, n) in keys:
            if p is None:
                continue
            g = reg.registered(shaped(real_req_none(q, len(live))), PP(p), n)
            w_ = live.get((r, q, p, n))
            if g is not w_:
                ctx.violation('C09', 'registered', 'C09|registered|%s' % ('stale' if w_ is None else ('missing' if g is None else 'wrong')),
                              {'r': r, 'key': (q, p, n), 'got': repr(g), 'want': repr(w_)})
        skeys = {(a, b) for a, b, c in ws}
        if op_key is not None and len(op_key) == 2:
            skeys.add(op_key)
        for (q, p) in list(skeys)[:6]:
            under = [c for a, b, c in ws if (a, b) == (q, p)]
            for v in vals:
                g = reg.subscribed(shaped(real_req_none(q, len(subs))), prov(p), v)
                w_ = v if any(v == u for u in under) else None
                if g is not w_:
                    ctx.violation('C09', 'subscribed', 'C09|subscribed|%s' % ('stale' if w_ is None else 'missing'),
                                  {'r': r, 'key': (q, p), 'value': repr(v), 'under': repr(under)})

    def answers(rs, r):
        out = []
        for key in live_keys():
            if key['r'] % nR != r:
                continue
            specs = key_specs(key)
            p = key['p'] % (nP + 1)
            nm = NAMES[key['n'] % 3]
            acc = model_lookup(r, specs, p, nm)
            got = rs[r].lookup(specs, prov(p), nm)
            la = dict(rs[r].lookupAll(specs, prov(p)))
            mn = model_names(r, specs, p)
            la = {n: v for n, v in la.items() if len(mn.get(n, [0, 0])) == 1}
            sb = list(rs[r].subscriptions(specs, prov(p)))
            out.append((key, got if len(acc) == 1 else 'ambiguous', la, ids(sb), sb))
        return out

    def cmp_answers(a, b, what):
        for (key, g1, la1, s1, sb1), (_k, g2, la2, s2, sb2) in zip(a, b):
            if g1 != 'ambiguous' and g1 is not g2:
                ctx.violation('C09', what, 'C09|%s|lookup-differs' % what, {'key': key, 'before': repr(g1), 'after': repr(g2)})
            if set(la1) != set(la2) or any(la1[n] is not la2[n] for n in la1):
                ctx.violation('C09', what, 'C09|%s|lookupAll-differs' % what, {'key': key, 'before': repr(la1), 'after': repr(la2)})
            if s1 != s2:
                ctx.violation('C09', what, 'C09|%s|subscriptions-differ' % what, {'key': key, 'before': repr(sb1), 'after': repr(sb2)})

    def check_replay(r):
        """replaying allRegistrations()/allSubscriptions() into an empty registry answers identically"""
        before = answers(regs, r)
        fresh = (AdapterRegistry if RD[r]['flav'] == 'A' else VClass)(regs[r].__bases__)
        for args in list(regs[r].allRegistrations()):
            fresh.register(*args)
        for args in list(regs[r].allSubscriptions()):
            fresh.subscribe(*args)
        rs = list(regs)
        rs[r] = fresh
        ctx.probe('replay-into-empty')
        cmp_answers(before, answers(rs, r), 'replay')

    # ---- initial bases ---------------------------------------------------------------
    for r in range(nR):
        bs = [b for b in RD[r]['bases'] if b < r]
        trial = dict(rb)
        trial[r] = bs
        try:
            c3(r, trial)
        except ValueError:
            bs = bs[:1]
        if bs:
            mutate(('bases', r, bs))
            rb[r] = list(bs)
    last_mut = ['init', None]

    def unexpected(prop_for_op, opname, e):
        import traceback
        lib = isinstance(e, LibRaised)
        if lib:
            e = e.exc
        tb = traceback.extract_tb(e.__traceback__)
        frames = [f for f in tb if 'zope/interface' in f.filename]
        where = '%s:%s' % (frames[-1].filename.rsplit('/', 1)[-1], frames[-1].name) if frames else ('extension-code' if lib else 'harness')
        if not frames and not lib:
            raise e
        for pp in sorted(props):
            ctx.violation(pp, 'unexpected-exception', '%s|exception|%s|%s|%s' % (pp, opname, type(e).__name__, where),
                          {'op': opname, 'exc': repr(e)[:300]})

    for step, op in enumerate(program['ops']):
        ctx.step = step
        ctx.nops += 1
        name = op['op']
        k = op.get('k', 0)
        try:
            if name == 'gc':
                gc.collect()
                ctx.fault('gc')
                ctx.log(step, 'gc')
                continue
            if name == 'perm':
                r = op['r'] % nR
                rng = random.Random(op['ps'])
                d = getattr(regs[r], '_v_subregistries', None)
                if d is not None and len(d.data) > 1:
                    items = list(d.data.items())
                    rng.shuffle(items)
                    d.data.clear()
                    d.data.update(items)
                    ctx.fault('perm-subregistries')
                for s in R:
                    dd = s._dependents
                    if dd is not None and len(dd.data) > 1:
                        items = list(dd.data.items())
                        rng.shuffle(items)
                        dd.data.clear()
                        dd.data.update(items)
                        ctx.fault('perm-dependents')
                ctx.log(step, 'perm', r)
                continue
            if name == 'probe':
                probe(k)
                ctx.log(step, 'probe')
                continue
            if name == 'ask':
                keys = live_keys()
                if not keys:
                    continue
                key = keys[op['key'] % len(keys)]
                if op.get('exact'):
                    key = W['keypool'][op['key'] % len(W['keypool'])]
                    if not alive[key['r'] % nR]:
                        continue
                # half of the history's lookups hand in a default object of their own (it must never be remembered)
                kind, a = safe_ask(regs, key, op['e'] % len(ENTRIES), default=(Dflt() if (k >> 7) & 1 else None))
                ctx.probe('ask-' + kind)
                ctx.log(step, 'ask', kind, key['r'] % nR, [LK[x % len(LK)] for x in key['req']], key['p'] % (nP + 1), key['n'] % 3, a)
                continue
            mutated = True
            if name == 'specmut':
                # change what one component of a pool key extends: re-base the interface, or re-declare the class / the object
                key = W['keypool'][op['key'] % len(W['keypool'])]
                comp = LK[key['req'][op['pos'] % len(key['req'])] % len(LK)] if key['req'] else 'Interface'
                if comp == 'Interface':
                    continue
                if comp[0] == 'R':
                    op = dict(op, op='irebase', i=int(comp[1:]))
                elif comp[0] == 'K':
                    op = dict(op, op='cdecl', c=int(comp[1:]))
                else:
                    op = dict(op, op='odecl', o=int(comp[1:]))
                name = op['op']
                ctx.probe('specmut-' + name)
            if name == 'reg':
                r = op['r'] % nR
                if op.get('anc_of') is not None and alive[op['anc_of'] % nR]:
                    above = ro_of(op['anc_of'] % nR)[1:]
                    if above:
                        r = above[op['anc_i'] % len(above)]
                        ctx.probe('registration-in-an-ancestor-registry')
                if not alive[r]:
                    continue
                req = [SP[x % len(SP)] if x % (len(SP) + 1) != len(SP) else None for x in op['req']]
                if op.get('fromkey') is not None:
                    fk = W['keypool'][op['fromkey'] % len(W['keypool'])]
                    op = dict(op, near=fk['req'], req=op['req'][:len(fk['req'])])
                    if op.get('samepn'):
                        op['n'] = fk['n']
                        if fk['p'] % (nP + 1) < nP:
                            op['p'] = fk['p'] % (nP + 1)
                    req = []
                if op.get('near'):
                    # dense shape: take the component from the neighbourhood (ancestors) of the star key's component
                    req = []
                    for j, x in enumerate(op['req']):
                        star = spec_of(LK[op['near'][j] % len(LK)])
                        anc = [lab_of_spec(s) for s in star.__sro__]
                        anc = [a for a in anc if a != '?']
                        req.append(anc[x % len(anc)] if anc else SP[x % len(SP)])
                p = op['p'] % nP
                nm = NAMES[op['n'] % 3]
                v = vals[op['v'] % len(vals)]
                old = live.get((r, norm(req), p, nm))
                if old is v:
                    ctx.probe('identical-re-registration')
                elif old is not None:
                    ctx.probe('overwrite')
                if spy_reg_world and h64(k, 'listener-registers-above') % 4 == 0:
                    spy_mutation[0] = (op['v'] + 1, op.get('fromkey') or 0)
                spy_written.clear()
                mutate(('reg', r, real_req(req), PP(p), nm, v))
                spy_mutation[0] = None
                # (an identical re-registration "is a no-op": judged by what the registry answers afterwards, not by its
                # internal change counter -- bumping it needlessly would not be observable through the public API)
                if (r, norm(req), p, nm) not in spy_written:
                    live[(r, norm(req), p, nm)] = v
                spy_written.clear()
                last_mut[0] = 'register'
                ctx.log(step, 'reg', r, req, p, nm, v)
                opk = (norm(req), p, nm)
            elif name == 'unreg':
                r = op['r'] % nR
                if not alive[r]:
                    continue
                mine = sorted([kk for kk in live if kk[0] == r], key=repr)
                if not mine:
                    continue
                kk = mine[op['sel'] % len(mine)]
                how = op['how'] % 4
                cur = live[kk]
                if how == 0:
                    v = cur
                elif how == 1:
                    v = None
                elif how == 2:
                    v = vals[(cur.n + 1) % len(vals)]           # some other object: nothing may be removed
                    if v == cur and v is not cur:
                        ctx.probe('unregister-equal-but-distinct')
                else:
                    eqs = [x for x in vals if x == cur and x is not cur]
                    v = eqs[0] if eqs else cur
                    if eqs:
                        ctx.probe('unregister-equal-but-distinct')
                if how == 1 and (op['sel'] >> 3) % 2:
                    mutate(('reg', r, real_req_none(kk[1], k), PP(kk[2]), kk[3], None))      # register(None) == unregister
                    ctx.probe('register-None')
                else:
                    mutate(('unreg', r, real_req_none(kk[1], k), PP(kk[2]), kk[3], v))
                if v is None or v is cur:
                    del live[kk]
                    if not any(k2[0] == r and len(k2[1]) == len(kk[1]) for k2 in live):
                        ctx.probe('last-entry-of-arity-removed')
                last_mut[0] = 'unregister'
                ctx.log(step, 'unreg', r, kk[1:], v)
                opk = kk[1:]
            elif name == 'sub':
                r = op['r'] % nR
                if not alive[r]:
                    continue
                req = [SP[x % len(SP)] if x % (len(SP) + 1) != len(SP) else None for x in op['req']]
                if op.get('fromkey') is not None:
                    fk = W['keypool'][op['fromkey'] % len(W['keypool'])]
                    op = dict(op, near=fk['req'], req=op['req'][:len(fk['req'])])
                    if op.get('samepn') and fk['p'] % (nP + 1) < nP:
                        op['p'] = fk['p'] % (nP + 1)
                    req = []
                if op.get('near'):
                    req = []
                    for j, x in enumerate(op['req']):
                        star = spec_of(LK[op['near'][j] % len(LK)])
                        anc = [a for a in (lab_of_spec(s) for s in star.__sro__) if a != '?']
                        req.append(anc[x % len(anc)] if anc else SP[x % len(SP)])
                p = op['p']
                p = None if p < 0 else p % nP
                v = vals[op['v'] % len(vals)]
                if any(s[0] == r and s[1] == norm(req) and s[2] == p and s[3] is v for s in subs):
                    ctx.probe('duplicate-subscription')
                mutate(('sub', r, real_req(req), prov(p), v))
                subs.append((r, norm(req), p, v))
                last_mut[0] = 'subscribe'
                ctx.log(step, 'sub', r, req, p, v)
                opk = (norm(req), p)
            elif name == 'unsub':
                r = op['r'] % nR
                if not alive[r]:
                    continue
                mine = [s for s in subs if s[0] == r]
                if not mine:
                    continue
                s = mine[op['sel'] % len(mine)]
                how = op['how'] % 4
                if how == 0:
                    v = s[3]
                elif how == 1:
                    v = None
                elif how == 2:
                    eqs = [x for x in vals if x == s[3] and x is not s[3]]
                    v = eqs[0] if eqs else s[3]
                    if eqs:
                        ctx.probe('unsubscribe-equal-but-distinct')
                else:
                    v = vals[(s[3].n + 1) % len(vals)]
                mutate(('unsub', r, real_req_none(s[1], k), prov(s[2]), v))
                before = len(subs)
                subs[:] = [t for t in subs if not (t[0] == r and t[1] == s[1] and t[2] == s[2] and (v is None or t[3] == v))]
                if before - len(subs) > 1:
                    ctx.probe('unsubscribe-removed-several')
                last_mut[0] = 'unsubscribe'
                ctx.log(step, 'unsub', r, s[1], s[2], v)
                opk = (s[1], s[2])
            elif name == 'mortal':
                r = op['r'] % nR
                if not alive[r]:
                    continue
                req = [SP[x % len(SP)] if x % (len(SP) + 1) != len(SP) else None for x in op['req']]
                p = op['p'] % nP
                nm = NAMES[op['n'] % 3]
                # where the successor goes: the very same key, the same required with another provided, or another key
                ssame = op['ssame']
                sreq = list(req) if ssame in (0, 1) else [SP[x % len(SP)] if x % (len(SP) + 1) != len(SP) else None for x in op['sreq']]
                sp = p if ssame in (0, 2) else op['sp'] % nP
                succ = vals[op['sv'] % len(vals)]
                fired = []
                fin_errors = []
                reg_now = regs[r]

                def fin(step=step, r=r, sreq=sreq, sp=sp, succ=succ, nm=nm, sform=op['sform'], reg_now=reg_now):
                    ctx.fault('finalizer-reenters-mutator')
                    fired.append(1)
                    try:
                        if regs[r] is not reg_now:
                            return
                        if sform == 'sub':
                            m_ = ('sub', r, real_req(sreq), PP(sp), succ)
                            mutlog.append(m_)
                            apply(regs, m_)
                            subs.append((r, norm(sreq), sp, succ))
                        else:
                            m_ = ('reg', r, real_req(sreq), PP(sp), nm, succ)
                            mutlog.append(m_)
                            apply(regs, m_)
                            live[(r, norm(sreq), sp, nm)] = succ
                    except Exception as e:      # noqa: would otherwise be swallowed by the interpreter ("Exception ignored in ...")
                        fin_errors.append(e)
                mortal = Mortal(1000 + step, {'eq': 'e' if op['how'] == 2 else None})
                import weakref as _wr
                mref = _wr.ref(mortal)
                if op['form'] == 'sub':
                    if op.get('extra'):
                        # another subscriber under the same key, so that the leaf is replaced rather than deleted
                        v0 = vals[op['v'] % len(vals)]
                        mutate(('sub', r, real_req(req), PP(p), v0))
                        subs.append((r, norm(req), p, v0))
                    regs[r].subscribe(real_req(req), PP(p), mortal)
                    if op.get('cached'):
                        # a remembered result keeps the value alive until the caches are dropped at the end of the mutator
                        regs[r].subscriptions(tuple(Interface if x is None else x for x in real_req(req)), PP(p))
                        ctx.probe('mortal-value-held-by-a-cache')
                    mortal.fin = fin
                    how = op['how']
                    if how == 0:
                        del mortal
                        m_ = ('unsub', r, real_req(req), PP(p), None)
                        gone = lambda t: True
                    elif how == 1:
                        m_ = ('unsub', r, real_req(req), PP(p), mortal)      # (the log entry keeps it alive until the end of this step)
                        del mortal
                        gone = lambda t: False
                    else:
                        eqv = [x for x in vals if x.eq == 'e'][0]
                        del mortal
                        m_ = ('unsub', r, real_req(req), PP(p), eqv)
                        gone = lambda t, eqv=eqv: t == eqv
                    apply(regs, m_)
                    if how == 1:
                        m_ = None               # ... now the registry's release was not the last one; this one is
                    else:
                        # (net effect on a replayed twin: whatever else the unsubscribe removed; the mortal value never existed there)
                        mutlog.insert(len(mutlog) - len(fired), m_)
                    # the model: everything under the key that the call removes, except what the finalizer added meanwhile
                    added = subs[len(subs) - (1 if (fired and op['sform'] == 'sub') else 0):] if fired else []
                    kept = [t for t in subs[:len(subs) - len(added)]
                            if not (t[0] == r and t[1] == norm(req) and t[2] == p and gone(t[3]))]
                    subs[:] = kept + added
                    last_mut[0] = 'unsubscribe'
                    opk = (norm(req), p)
                else:
                    regs[r].register(real_req(req), PP(p), nm, mortal)
                    if op.get('cached'):
                        regs[r].lookup(tuple(Interface if x is None else x for x in real_req(req)), PP(p), nm)
                        ctx.probe('mortal-value-held-by-a-cache')
                    mortal.fin = fin
                    del mortal
                    v2 = vals[op['v'] % len(vals)]
                    m_ = ('reg', r, real_req(req), PP(p), nm, v2)        # overwrite: the old value is released by the store
                    apply(regs, m_)
                    mutlog.insert(len(mutlog) - len(fired), m_)
                    if not (fired and op['sform'] == 'reg' and (norm(sreq), sp) == (norm(req), p)):
                        live[(r, norm(req), p, nm)] = v2
                    last_mut[0] = 'register'
                    opk = (norm(req), p, nm)
                m_ = None
                mm = mref()
                if mm is not None:
                    # something else still owns it: disarm, so that it cannot fire at a moment the simulator did not choose
                    mm.fin = None
                    ctx.probe('mortal-value-survived-the-mutator')
                del mm
                if fired:
                    ctx.probe('finalizer-fired-inside-the-mutator')
                ctx.log(step, 'mortal', op['form'], r, req, p, op['how'], len(fired), op['sform'], sreq, sp)
                if fin_errors:
                    unexpected(None, 'finalizer-' + op['sform'], fin_errors[0])
            elif name == 'rbases':
                r = op['r'] % nR
                if op.get('pick_multi'):
                    multi = [x for x in range(nR) if alive[x] and len(rb[x]) >= 2]
                    if multi:
                        r = multi[op['r'] % len(multi)]
                if op.get('top_of') is not None and alive[op['top_of'] % nR]:
                    above = ro_of(op['top_of'] % nR)[1:]
                    if above:
                        r = above[-1]
                        ctx.probe('rebase-the-top-most-ancestor')
                if op.get('base_of') is not None and rb[op['base_of'] % nR]:
                    cand = rb[op['base_of'] % nR]
                    r = cand[op['r'] % len(cand)]
                    ctx.probe('rebase-a-base-right-after-own-change')
                if not alive[r]:
                    continue
                cands = []
                if op.get('reorder'):
                    if len(rb[r]) < 2:
                        continue
                    op = dict(op, bases=list(reversed(rb[r])))
                    ctx.probe('registry-bases-reordered')
                for b in op['bases']:
                    b = b % nR
                    if b == r or b in cands or not alive[b] or r in reach(rb, b) or b == r:
                        continue
                    if RD[r]['flav'] == 'A' and RD[b]['flav'] != 'A':
                        continue
                    cands.append(b)
                trial = dict(rb)
                trial[r] = cands
                try:
                    for x in range(nR):
                        c3(x, trial)
                except ValueError:
                    ctx.probe('rbases-skipped-inconsistent')
                    continue
                has_sub = any(r in rb[x] for x in range(nR) if alive[x])
                if has_sub:
                    ctx.probe('rebase-registry-with-subregistries')
                    if any(r in rb[x] and any(x in rb[y] for y in range(nR)) for x in range(nR)):
                        ctx.probe('rebase-registry-two-levels-above-bottom')
                mutate(('bases', r, cands))
                rb[r] = cands
                last_mut[0] = 'registry-bases'
                ctx.log(step, 'rbases', r, cands)
                opk = None
            elif name == 'flaky':
                # a registration in a verifying registry while the change counter of one of the registries above it cannot be
                # read: the call fails (after the registration was recorded); what the registry answers afterwards must not
                # depend on the implementation, and must include the recorded registration
                r = op['r'] % nR
                if not flaky_world or not alive[r] or RD[r]['flav'] != 'V':
                    continue
                above = [b for b in ro_of(r)[1:] if RD[b]['flav'] == 'V' and alive[b]]
                if not above:
                    continue
                b = above[op['sel'] % len(above)]
                if h64(k, 'flaky-bases-variant') % 2 and len(rb[r]) >= 1:
                    # variant: the bases of r are assigned (same registries, reversed order when there are several) while b's
                    # counter is unreadable; whatever the registry says its bases are afterwards is what the model follows
                    nb = list(reversed(rb[r]))
                    # ... or one more base is added, and it is the *new* base whose counter cannot be read
                    extra_ = [g for g in range(nR) if g != r and alive[g] and g not in rb[r] and RD[g]['flav'] == 'V'
                              and r not in reach(rb, g) and g not in reach(rb, r)]
                    if extra_ and h64(k, 'flaky-new-base') % 3:
                        g = extra_[op['v'] % len(extra_)]
                        trial = dict(rb)
                        trial[r] = rb[r] + [g]
                        try:
                            for x in range(nR):
                                c3(x, trial)
                            nb, b = rb[r] + [g], g
                            ctx.probe('new-base-unreadable-while-it-is-attached')
                        except ValueError:
                            pass
                    trial = dict(rb)
                    trial[r] = nb
                    try:
                        for x in range(nR):
                            c3(x, trial)
                    except ValueError:
                        continue            # the registry graph is kept C3-consistent
                    regs[b].__dict__['_unreadable'] = True
                    try:
                        try:
                            regs[r].__bases__ = tuple(regs[x] for x in nb)
                            outcome = 'ok'
                        except Unreadable:
                            outcome = 'Unreadable'
                    finally:
                        regs[b].__dict__.pop('_unreadable', None)
                    now = [regs.index(x) for x in regs[r].__bases__]
                    if now != rb[r]:
                        mutlog.append(('bases', r, now))
                        rb[r] = now
                    ctx.fault('cb-raise-in-change-notification-of-a-mutator')
                    last_mut[0] = 'registry-bases'
                    ctx.log(step, 'flaky-bases', r, b, now, outcome)
                    opk = None
                    ctx.probe('mut-' + last_mut[0])
                    continue
                fk = W['keypool'][op['key'] % len(W['keypool'])]
                rq = tuple(norm([LK[x % len(LK)] if LK[x % len(LK)] in SP else SP[x % len(SP)] for x in fk['req']]))
                pp = fk['p'] % (nP + 1)
                pp = pp if pp < nP else 0
                nm = NAMES[fk['n'] % 3]
                v = vals[op['v'] % len(vals)]
                if live.get((r, rq, pp, nm)) is v:
                    continue
                regs[b].__dict__['_unreadable'] = True
                try:
                    try:
                        mutate(('reg', r, real_req(rq), PP(pp), nm, v))
                        outcome = 'ok'
                    except Unreadable:
                        outcome = 'Unreadable'
                finally:
                    regs[b].__dict__.pop('_unreadable', None)
                if outcome == 'ok' or regs[r].registered(real_req(rq), PP(pp), nm) is v:
                    # recorded (the library stores first and notifies afterwards); were it rolled back instead, that would be
                    # a legitimate choice too: the model follows what `registered` says, and everything else must agree with it
                    if outcome != 'ok':
                        mutlog.append(('reg', r, real_req(rq), PP(pp), nm, v))       # the twins replay it as an ordinary registration
                    live[(r, rq, pp, nm)] = v
                else:
                    outcome += '/rolled-back'
                ctx.fault('cb-raise-in-change-notification-of-a-mutator')
                last_mut[0] = 'register'
                ctx.log(step, 'flaky', r, b, rq, pp, nm, v, outcome)
                opk = (rq, pp, nm)
            elif name == 'regen':
                # rebuild() of a registry, then as many further real changes as bring its change counter back to the value it
                # had before -- with different content, and with no lookup anywhere in between: whoever compares counters
                # to detect changes must not be fooled by the coincidence
                r = op['r'] % nR
                if not alive[r]:
                    continue
                g0 = regs[r]._generation
                mutate(('rebuild', r))
                va, vb = vals[op['v'] % len(vals)], vals[(op['v'] + 1) % len(vals)]
                fk = W['keypool'][op['key'] % len(W['keypool'])]
                rq = tuple(norm([SP[x % len(SP)] if LK[x % len(LK)] not in SP else LK[x % len(LK)] for x in fk['req']]))
                pp = fk['p'] % (nP + 1)
                pp = pp if pp < nP else 0
                nm = NAMES[fk['n'] % 3]
                n_ = 0
                while regs[r]._generation != g0 and regs[r]._generation < g0 and n_ < 60:
                    v = va if live.get((r, rq, pp, nm)) is not va else vb
                    mutate(('reg', r, real_req(rq), PP(pp), nm, v))
                    live[(r, rq, pp, nm)] = v
                    n_ += 1
                if regs[r]._generation == g0:
                    ctx.probe('change-counter-back-at-an-earlier-value')
                last_mut[0] = 'register' if n_ else 'rebuild'
                ctx.log(step, 'regen', r, n_)
                opk = None
            elif name == 'rebuild':
                r = op['r'] % nR
                if not alive[r]:
                    continue
                before = answers(regs, r) if 'C09' in props else None
                mutate(('rebuild', r))
                if before is not None:
                    cmp_answers(before, answers(regs, r), 'rebuild')
                if any(r in rb[x] for x in range(nR)):
                    ctx.probe('rebuild-of-a-base-registry')
                last_mut[0] = 'rebuild'
                ctx.log(step, 'rebuild', r)
                opk = None
            elif name == 'irebase':
                i = op['i'] % nRi
                nb = []
                for b in op['bases']:
                    b = b % nRi
                    if b != i and b not in nb and i not in reach(rib, b):
                        nb.append(b)
                R[i].__bases__ = tuple(R[b] for b in nb) or (Interface,)
                rib[i] = nb
                last_mut[0] = 'interface-bases'
                last_mut[1] = ('irebase', i, nb)
                ctx.log(step, 'irebase', i, nb)
                opk = None
                mutated = False
            elif name == 'cdecl':
                c = op['c'] % ncls
                xs = [R[x % nRi] for x in op['xs']]
                (classImplementsOnly if op.get('only') else classImplements)(classes[c], *xs)
                last_mut[0] = 'class-declaration'
                last_mut[1] = ('cdecl', c, op['xs'], op.get('only'))
                ctx.log(step, 'cdecl', c, op['xs'], bool(op.get('only')))
                opk = None
                mutated = False
            elif name == 'odecl':
                ob = obs[op['o'] % nobs]
                xs = [R[x % nRi] for x in op['xs']]
                (alsoProvides if op.get('also') else directlyProvides)(ob, *xs)
                last_mut[0] = 'instance-declaration'
                last_mut[1] = ('odecl', op['o'] % nobs, op['xs'], op.get('also'))
                ctx.log(step, 'odecl', op['o'] % nobs, op['xs'], bool(op.get('also')))
                opk = None
                mutated = False
            elif name == 'pchurn':
                r = op['r'] % nR
                fk = W['keypool'][op['key'] % len(W['keypool'])]
                pi_ = fk['p'] % (nP + 1)
                if not alive[r] or pi_ >= nP:
                    continue
                specs = key_specs(fk)
                nm = NAMES[fk['n'] % 3]
                T = InterfaceClass('P%d' % pi_, tuple(P[b] for b in W['pifaces'][pi_]) or (Interface,), {}, __module__='zisim.r')
                a_twin = (regs[r].lookup(specs, T, nm), regs[r].lookupAll(specs, T), regs[r].subscriptions(specs, T))
                a_orig = (regs[r].lookup(specs, P[pi_], nm), regs[r].lookupAll(specs, P[pi_]), regs[r].subscriptions(specs, P[pi_]))
                if not (same(a_twin[0], a_orig[0]) and list(a_twin[1]) == list(a_orig[1]) and list(a_twin[2]) == list(a_orig[2])):
                    for pp_ in sorted(props):
                        ctx.violation(pp_, 'twin-provided', '%s|lookup|equal-named-provided-objects-answer-differently' % pp_, {'r': r})
                regs[r].lookup(specs, T, nm)           # (the twin is what the registry saw last)
                addr = id(T)
                del T
                gc.collect()
                ctx.fault('drop')
                ctx.fault('gc')
                misses = []
                Q = None
                for i_ in range(40):
                    Q = InterfaceClass('Q%d_%d' % (step, i_), (Interface,), {}, __module__='zisim.r')
                    if id(Q) == addr:
                        ctx.fault('address-reuse')
                        break
                    misses.append(Q)
                got = (regs[r].lookup(specs, Q, nm), tuple(regs[r].lookupAll(specs, Q)), list(regs[r].subscriptions(specs, Q)),
                       regs[r].lookup1(specs[0], Q, nm) if len(specs) == 1 else None)
                if got != (None, (), [], None):
                    for pp_ in sorted(props):
                        ctx.violation(pp_, 'fresh-provided', '%s|lookup|brand-new-provided-interface-has-an-answer' % pp_,
                                      {'r': r, 'got': repr(got)[:200]})
                del misses, Q
                ctx.probe('provided-interface-churn')
                ctx.log(step, 'pchurn', r, pi_)
                continue
            elif name == 'replacereg':
                withsub = [x for x in range(nR) if alive[x] and any(x in rb[y] for y in range(nR) if alive[y])]
                if not withsub:
                    continue
                r = withsub[op['r'] % len(withsub)]
                children = [x for x in range(nR) if alive[x] and r in rb[x]]
                g_old = regs[r]._generation
                old_rb = {x: list(rb[x]) for x in children}
                own_bases = list(rb[r])
                for x in children:
                    nb = [b for b in rb[x] if b != r]
                    mutate(('bases', x, nb))
                    rb[x] = nb
                addr = id(regs[r])
                cls = type(regs[r])
                regs[r] = None
                mutlog[:] = [m for m in mutlog if m[1] != r]
                for kk in [kk for kk in live if kk[0] == r]:
                    del live[kk]
                subs[:] = [t for t in subs if t[0] != r]
                rb[r] = []
                gc.collect()
                ctx.fault('drop-registry')
                ctx.fault('gc')
                misses = []
                new = None
                for _ in range(64):
                    cand = cls.__new__(cls)
                    if id(cand) == addr:
                        new = cand
                        break
                    misses.append(cand)
                if new is None:
                    new = cls.__new__(cls)
                else:
                    ctx.fault('address-reuse')
                new.__init__()
                del misses
                regs[r] = new
                if isinstance(new, SpyA):
                    new._zisim_r = r
                if own_bases:
                    mutate(('bases', r, own_bases))
                    rb[r] = own_bases
                for x in children:
                    mutate(('bases', x, old_rb[x]))
                    rb[x] = old_rb[x]
                ctx.log(step, 'replacereg', r, children, g_old)
                probe(k)
                va, vb = vals[op['v'] % len(vals)], vals[(op['v'] + 1) % len(vals)]
                fk = W['keypool'][op['key'] % len(W['keypool'])]
                rq = tuple(norm([SP[x % len(SP)] if LK[x % len(LK)] not in SP else LK[x % len(LK)] for x in fk['req']]))
                pp = fk['p'] % (nP + 1)
                pp = pp if pp < nP else 0
                nm = NAMES[fk['n'] % 3]
                n_ = 0
                while regs[r]._generation < g_old and n_ < 40:
                    v = va if live.get((r, rq, pp, nm)) is not va else vb
                    mutate(('reg', r, real_req(rq), PP(pp), nm, v))
                    live[(r, rq, pp, nm)] = v
                    n_ += 1
                    # (the answer seen from below has to follow the changes: whatever recognises "a change I have already
                    # dealt with" must not mistake the new registry for the one that used to live here; judged after each of
                    # the last three, where the new registry's change count meets the old one's)
                    if regs[r]._generation >= g_old - 2:
                        probe(k + n_)
                if n_ and regs[r]._generation == g_old:
                    ctx.probe('replacement-registry-reached-the-change-count-of-the-old-one')
                last_mut[0] = 'register' if n_ else 'registry-bases'
                ctx.log(step, 'replaced', r, n_)
                opk = None
            elif name == 'dropreg':
                r = op['r'] % nR
                if not alive[r] or sum(alive) <= 1 or any(r in rb[x] for x in range(nR) if alive[x]):
                    continue
                alive[r] = False
                regs[r] = None
                # the mutation log must not keep it alive either: forget its entries (the twin of a dead registry is never asked)
                mutlog[:] = [m for m in mutlog if m[1] != r]
                ctx.fault('drop-registry')
                ctx.log(step, 'dropreg', r)
                continue
            else:
                raise ValueError('unknown op %r' % (name,))
            ctx.probe('mut-' + last_mut[0])
            if 'C09' in props and mutated and name in ('reg', 'unreg', 'sub', 'unsub', 'rebuild', 'mortal'):
                check_book(op['r'] % nR, opk)
            if (h64(k, 'probe') % 100) < probe_p:
                probe(k)
        except Stop:
            raise
        except Boom:
            raise
        except Exception as e:      # noqa: an exception out of the library where none is allowed
            unexpected(None, name, e)
    ctx.step = len(program['ops'])
    try:
        probe(0)
        if 'C09' in props:
            for r in range(nR):
                if alive[r]:
                    check_book(r)
    except Stop:
        raise
    except Boom:
        raise
    except Exception as e:
        unexpected(None, 'final-probe', e)


def describe(program):
    w = dict(program['world'])
    return {'world': w, 'ops': program['ops'][:12]}


def run(req, item):
    return standard_run(generate, execute, req, item, describe)
