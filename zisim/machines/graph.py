"""Machine `graph` -- rebasing histories over specification graphs (C02, C03, C15).

World: interface DAG (with attributes, tagged values and invariants defined by
several ancestors), class specifications (Implements via real classes), instance
declarations (Provides via real instances) and plain Declarations.  History:
`S.__bases__ = ...` at any node, creation of new dependents on top of the
current state, accessor calls in PRNG order (memo warm-up), and the simulator's
faults: collect now, drop my last reference to a dependent, permute the
notification order of a node's dependents.

Oracles (see DESIGN.md 3/C02, C03, C15):
  C02  reachability over the model's ordered bases, for all ordered pairs, plus a
       freshly built isomorphic graph;
  C03  validity of every __sro__/__iro__, and CPython's own type.mro() of a
       mirrored class hierarchy as the C3 oracle; strict / is_consistent;
  C15  first definer along the *current* __iro__, all accessors agree.
"""
import gc
import random

from ..prng import Streams, h64
from .base import standard_run, Stop, reach, c3

MACHINE = 'graph'
NAMES = ['a', 'b', 'c']
TAGS = ['t', 'u']


def generate(seed, mode):
    S = Streams(seed)
    w = S('world')
    o = S('ops')
    big = h64(seed, 'big-world') % 12 == 0        # swarm knob: now and then a wide, deep hierarchy
    nI = w.randint(3, 7) if not big else w.randint(9, 14)
    ibases = []
    for i in range(nI):
        k = w.choice([0, 1, 1, 2, 2, 3]) if i else 0
        if big and i:
            k = w.choice([1, 2, 3, 4, 5])
        k = min(k, i)
        ibases.append(w.sample(range(i), k))
    dense = w.random() < 0.6            # many ancestors define the same names
    iattrs, itags, iinv = [], [], []
    for i in range(nI):
        p = 0.55 if dense else 0.25
        iattrs.append({n: w.choice(['attr', 'meth']) for n in NAMES if w.random() < p})
        itags.append({t: w.randrange(100) for t in TAGS if w.random() < p})
        iinv.append([w.random() < 0.4 for _ in range(w.choice([0, 0, 1, 2]))])
    decls = []
    nD = w.choice([0, 1, 2, 3, 4]) if not mode.get('ifaces_only') else 0
    ncls = 0
    for d in range(nD):
        kind = w.choice(['impl', 'impl', 'prov', 'decl'])
        xs = w.sample(range(nI), w.randint(0, min(2, nI)))
        if kind == 'impl':
            cb = w.sample(range(ncls), w.randint(0, min(2, ncls))) if ncls else []
            decls.append({'kind': 'impl', 'xs': xs, 'cb': cb})
            ncls += 1
        elif kind == 'prov':
            decls.append({'kind': 'prov', 'xs': xs, 'c': w.randrange(16)})
        else:
            decls.append({'kind': 'decl', 'xs': xs})
    chk_p = w.choice([100, 100, 100, 50, 25])
    gc_rate = w.choice([0.0, 0.03, 0.1])
    perm_rate = w.choice([0.0, 0.05, 0.15])
    q_rate = w.choice([0.1, 0.3, 0.5])
    nops = w.randint(3, 18)
    fail_world = h64(seed, 'failing-dependent-world') % 3 == 0 and 'C02' in (mode.get('props') or ['C02'])
    reenter_world = h64(seed, 'failing-dependent-world') % 3 == 1 and bool({'C02', 'C03'} & set(mode.get('props') or ['C02']))
    ops = []
    for _ in range(nops):
        k = o.getrandbits(30)
        if o.random() < gc_rate:
            ops.append({'op': 'gc', 'k': k})
        if o.random() < perm_rate:
            ops.append({'op': 'perm', 'n': o.randrange(64), 'ps': o.getrandbits(30), 'k': k})
        r = o.random()
        if r < q_rate:
            ops.append({'op': 'q', 'a': o.randrange(12), 'i': o.randrange(64), 'n': o.randrange(8), 'k': k})
        elif r < q_rate + 0.08:
            ops.append({'op': 'newi', 'bases': [o.randrange(64) for _ in range(o.randint(1, 3))],
                        'attrs': {n: 'attr' for n in NAMES if o.random() < 0.3}, 'k': k})
        elif r < q_rate + 0.14 and not mode.get('ifaces_only'):
            ops.append({'op': 'newd', 'kind': o.choice(['decl', 'prov', 'impl']),
                        'bases': [o.randrange(64) for _ in range(o.randint(0, 3))], 'c': o.randrange(16), 'k': k})
        elif r < q_rate + 0.18:
            ops.append({'op': 'drop', 'n': o.randrange(64), 'k': k})
        elif r < q_rate + 0.20:
            ops.append({'op': 'rebase_empty', 'n': o.randrange(64), 'k': k})
        elif r < q_rate + 0.24:
            ops.append({'op': 'reload', 'n': o.randrange(64), 'k': k})
        elif r < q_rate + 0.30 and reenter_world:
            # fault `cb-reenter` inside a re-basing: a dependent of the re-based specification re-bases something *above* it
            # (one of its new bases, mostly) from inside the change notification
            ops.append({'op': 'rebase_reenter', 'n': o.randrange(64),
                        'bases': [o.randrange(64) for _ in range(o.choice([1, 1, 2, 2, 3]))],
                        't': o.randrange(64), 'tnew': o.random() < 0.75, 'tbases': [o.randrange(64) for _ in range(o.choice([0, 1, 1, 2]))],
                        'pos': o.randrange(64), 'k': k})
        elif r < q_rate + 0.30 and fail_world:
            # fault `cb-raise` inside a re-basing: a dependent of the re-based specification fails once while it is told
            ops.append({'op': 'rebase_fail', 'n': o.randrange(64),
                        'bases': [o.randrange(64) for _ in range(o.choice([0, 1, 1, 2, 2, 3]))],
                        'pos': o.randrange(64), 'retry': o.random() < 0.4, 'k': k})
        else:
            ops.append({'op': 'rebase', 'n': o.randrange(64),
                        'bases': [o.randrange(64) for _ in range(o.choice([0, 1, 1, 2, 2, 3]))],
                        'mix': o.random() < 0.12, 'k': k})
    return {'machine': MACHINE, 'seed': seed,
            'world': {'ibases': ibases, 'iattrs': iattrs, 'itags': itags, 'iinv': iinv, 'decls': decls,
                      'chk_p': chk_p, 'fresh_p': w.choice([0, 20, 50])},
            'ops': ops}


def execute(program, ctx, mode):
    from zope.interface import Interface, Attribute, classImplements, classImplementsOnly, directlyProvides, implementedBy, Invalid
    from zope.interface.interface import InterfaceClass, Specification, Method
    from zope.interface.declarations import Declaration, _empty
    from zope.interface import ro as zro
    import os

    props = set(mode.get('props') or ['C02', 'C03', 'C15'])
    W = program['world']
    strict_env = os.environ.get('ZOPE_INTERFACE_STRICT_IRO') == '1'
    legacy_env = os.environ.get('ZOPE_INTERFACE_USE_LEGACY_IRO') == '1'
    chk_p = W.get('chk_p', 100)
    fresh_p = W.get('fresh_p', 0)
    ICE = zro.InconsistentResolutionOrderError

    # ---- node table ------------------------------------------------------
    label = {}          # id(spec) -> label
    node = {}           # label -> real spec (None when dropped)
    keep = {}           # label -> extra strong refs (class, instance)
    bases_of = {}       # label -> ordered list of labels  (the model)
    kind = {}           # label -> 'I' | 'impl' | 'prov' | 'decl' | 'fixed'
    order = []          # creation order of labels (rebasable ones)
    attrs = {}          # iface label -> {name: description object}
    tags = {}           # iface label -> {tag: value}
    rawtags = {}        # iface label -> {tag: generated number}
    invs = {}           # iface label -> [(stub, fails)]
    inv_calls = []
    inv_tagged = set()  # iface labels whose 'invariants' tag holds an empty collection
    classes = []        # real classes of impl nodes
    counters = {'I': 0, 'D': 0, 'fresh': 0}

    def reg(lbl, spec, knd, model_bases=None, extra=None):
        label[id(spec)] = lbl
        node[lbl] = spec
        kind[lbl] = knd
        keep[lbl] = extra
        if model_bases is None:
            model_bases = []
            for b in spec.__bases__:
                bl = label.get(id(b))
                if bl is None:
                    bl = 'X%d' % len([k for k in kind if kind[k] == 'fixed'])
                    reg(bl, b, 'fixed')
                model_bases.append(bl)
        bases_of[lbl] = list(model_bases)
        if knd != 'fixed':
            order.append(lbl)
            if any(b in tainted for b in bases_of[lbl]):
                tainted.add(lbl)

    label[id(Interface)] = 'Interface'
    node['Interface'] = Interface
    kind['Interface'] = 'fixed'
    bases_of['Interface'] = []

    def mk_inv(lbl, j, fails):
        def inv(ob):
            inv_calls.append((lbl, j))
            if fails:
                raise Invalid('%s#%d' % (lbl, j))
        return inv

    def model_consistent(lbl, new_bases):
        """would the model graph with lbl rebased be C3-consistent at lbl and all its descendants?"""
        trial = dict(bases_of)
        trial[lbl] = list(new_bases)
        ok = mirror(trial)
        desc = [x for x in trial if x == lbl or lbl in reach(trial, x)]
        bad_live = [x for x in desc if not ok.get(x, True) and (x == lbl or node.get(x) is not None)]
        bad_dead = [x for x in desc if not ok.get(x, True) and x != lbl and node.get(x) is None]
        if bad_live:
            return False
        # an inconsistent dependent whose last reference was dropped raises only
        # while it has not been collected yet: either outcome is legitimate
        return None if bad_dead else True

    # Re-entrant observer (C15 worlds, one in two): a dependent of every interface that reads the attribute accessors from
    # inside the change notification.  Whatever moment that is, `get(name)` has to be the description of the first
    # definer along the `__iro__` the interface shows at that same moment (the memo must not outlive the order it was
    # filled from); judged against the order recorded in the callback, so no assumption about the final state is made.
    spies = []
    spy_world = 'C15' in props and h64(program.get('seed') or 0, 'attr-spy-world') % 2 == 0

    class AttrSpy:
        def __init__(self, lbl, I):
            self.lbl = lbl
            self.I = I
            self.seen = []

        def changed(self, originally_changed):
            I = self.I
            iro = [label.get(id(x)) for x in I.__iro__]
            self.seen.append((iro, {n: I.get(n) for n in NAMES}, {n: (n in I) for n in NAMES}))
            ctx.fault('cb-reenter-accessors-in-change-notification')

    def check_spies():
        for spy in spies:
            seen, spy.seen = spy.seen, []
            for iro, got, has in seen:
                for n in NAMES:
                    want = None
                    for l in iro:
                        tbl = attrs.get(l) or {}
                        if n in tbl:
                            want = tbl[n]
                            break
                    ctx.probe('accessor-inside-notification')
                    if got[n] is not want or has[n] != (want is not None):
                        ctx.violation('C15', 'accessor-in-notification', 'C15|get|stale-inside-change-notification|%s' % (
                            'absent-but-defined' if got[n] is None else ('present-but-undefined' if want is None else 'not-first-definer')),
                            {'iface': spy.lbl, 'name': n, 'iro': iro})

    # Fault `cb-raise` inside a re-basing (op `rebase_fail`): a simulator-owned dependent of the re-based specification raises
    # once from changed().  The propagation is aborted there, so everything strictly below the re-based specification may be
    # stale and is *tainted* (not judged) until a later successful propagation has passed through it with all its ancestors
    # clean.  The re-based specification itself was recomputed before anybody was told, and everything that is not below it
    # was never involved: both stay judged -- against the bases the specification shows after the failure (the assignment
    # either took effect or it did not; anything else is a violation).
    tainted = set()
    flakies = []

    class Injected(Exception):
        pass

    class Flaky:
        def __init__(self):
            self.left = 1

        def changed(self, originally_changed):
            if self.left:
                self.left -= 1
                ctx.fault('cb-raise-in-rebase-notification')
                raise Injected()

    def descendants(x):
        return {y for y in bases_of if y != x and x in reach(bases_of, y)}

    def propagated(x):
        """a propagation that started at x has completed: x and everything below it is now exactly as good as its bases"""
        D = descendants(x) | {x}
        if not tainted and not any(b in tainted for y in D for b in bases_of[y]):
            return
        todo = set(D)
        while todo:
            for y in sorted(todo):
                if not any(b in todo for b in bases_of[y]):
                    break
            todo.discard(y)
            if any(b in tainted for b in bases_of[y]):
                tainted.add(y)
            else:
                tainted.discard(y)

    odd_world = h64(program.get('seed') or 0, 'odd-object-world') % 5 == 0
    ifaces_only_world = not (W.get('decls') or [])

    class FalsyAttribute(Attribute):
        def __bool__(self):
            return False

        def __len__(self):
            return 0

    class Proxy:
        """a transparent proxy (as zope.proxy / zope.security put around interfaces): hashes and compares like what it wraps"""
        __slots__ = ('_o',)

        def __init__(self, o):
            object.__setattr__(self, '_o', o)

        def __hash__(self):
            return hash(object.__getattribute__(self, '_o'))

        def __eq__(self, other):
            return object.__getattribute__(self, '_o') == other

        def __ne__(self, other):
            return object.__getattribute__(self, '_o') != other

        def __getattribute__(self, name):          # everything is forwarded, also __name__ / __module__ / __class__
            return getattr(object.__getattribute__(self, '_o'), name)

    class FancyIC(InterfaceClass):
        def __bool__(self):
            return False

        def __len__(self):
            return 0

        def __hash__(self):
            return hash(('fancy', self.__name__, self.__module__))
    if odd_world:
        ctx.probe('odd-object-world')

    def tagval(lbl, t, v):
        """the value stored under a tag: usually a tuple naming its definer; sometimes a value that coincides with what
        callers pass as the default (None, 0) -- an override to such a value must still win over a farther ancestor"""
        if v % 10 == 0:
            return None
        if v % 10 == 1:
            return 0
        return (lbl, t, v)

    def new_iface(bl, iat, itg, iiv, real_name=None):
        lbl = 'I%d' % counters['I']
        counters['I'] += 1
        d = {}
        for n, k in iat.items():
            if k == 'attr':
                # in "odd-object" worlds some descriptions are instances of an Attribute subclass that is false in a boolean context
                # ... and some carry another name of the vocabulary as their own __name__ (an alias: `legacy = IBase['foo']`)
                own = '%s.%s' % (lbl, n)
                if odd_world and h64(lbl, n, 'alias-attr') % 3 == 0:
                    own = NAMES[(NAMES.index(n) + 1) % len(NAMES)]
                d[n] = (FalsyAttribute if (odd_world and h64(lbl, n, 'falsy-attr') % 2) else Attribute)(own)
            else:
                f = (lambda self, x=1: None)
                f.__name__ = n
                d[n] = f
        real_bases = tuple(node[b] for b in bl) or (Interface,)
        mb = list(bl) or ['Interface']
        if strict_env and model_consistent(lbl, mb) is False:
            # strict mode refuses the definition.  The caller catches the error and carries on: the refused object is garbage,
            # nothing of it may linger (later re-basings of its would-be bases are judged as if it had never been tried)
            ctx.probe('strict-skip-inconsistent-new')
            counters['I'] -= 1
            counters['refused'] = counters.get('refused', 0) + 1
            try:
                InterfaceClass('Refused%d' % counters['refused'], real_bases, d, __module__='zisim.g')
                ctx.violation('C03', 'strict-missed', 'C03|strict|definition-accepted-although-no-C3', {'bases': mb})
            except ICE:
                ctx.fault('refused-definition')
            return None
        # ... and some interfaces are instances of an InterfaceClass subclass that is false in a boolean context and hashes in its
        # own (equality-consistent) way.  (An interface named like one of its own bases was tried and dropped: `extends` is defined
        # with name-based inequality, so such a pair answers False by design.)
        IC = FancyIC if (odd_world and h64(lbl, 'fancy-interface-class') % 2) else InterfaceClass
        I = IC(real_name or lbl, real_bases, d, __module__='zisim.g')
        for t, v in itg.items():
            I.setTaggedValue(t, tagval(lbl, t, v))
        if iiv:
            I.setTaggedValue('invariants', [mk_inv(lbl, j, f) for j, f in enumerate(iiv)])
        elif h64(program.get('seed') or 0, lbl, 'empty-invariants-collection') % 4 == 0:
            # the tag is there but holds an empty collection (its only invariant was taken out again): the invariants of the
            # farther ancestors must run all the same
            I.setTaggedValue('invariants', [] if h64(lbl, 'inv-list') % 2 else ())
            inv_tagged.add(lbl)
            ctx.probe('empty-invariants-collection')
        if d and h64(program.get('seed') or 0, lbl, 'caller-reuses-the-attribute-dict') % 3 == 0:
            # the caller built the interface from a template dictionary it keeps, and goes on editing it (the next interface of
            # a family): nothing of that may reach the interface, before or after its first lookups
            I.get(sorted(d)[0])
            d.clear()
            d['zz'] = Attribute('zz')
            ctx.probe('attribute-dict-edited-by-the-caller-afterwards')
        reg(lbl, I, 'I', mb)
        if spy_world:
            spy = AttrSpy(lbl, I)
            spies.append(spy)
            I.subscribe(spy)
        attrs[lbl] = {n: I.direct(n) for n in iat}
        tags[lbl] = {t: tagval(lbl, t, v) for t, v in itg.items()}
        rawtags[lbl] = dict(itg)
        invs[lbl] = list(iiv)
        return lbl

    def new_decl(knd, xs_labels, cb=(), c=0, raw_bases=None):
        lbl = 'D%d' % counters['D']
        ifs = [node[x] for x in xs_labels]
        try:
            if knd == 'impl':
                cbs = [classes[b % len(classes)] for b in cb] if classes else []
                cbs = list(dict.fromkeys(cbs))
                cls = None
                for attempt in (cbs, cbs[:1], []):
                    try:
                        cls = type('GK%d' % len(classes), tuple(attempt) or (object,), {'__module__': 'zisim.g'})
                        break
                    except TypeError:
                        continue
                classImplements(cls, *ifs)
                spec = implementedBy(cls)
                extra = cls
            elif knd == 'prov':
                if not classes:
                    classes.append(type('GK%d' % len(classes), (object,), {'__module__': 'zisim.g'}))
                cls = classes[c % len(classes)]
                ob = cls()
                directlyProvides(ob, *ifs)
                spec = ob.__provides__
                extra = ob
            else:
                spec = Declaration(*ifs)
                extra = None
        except ICE:
            if strict_env:
                ctx.probe('strict-raise-at-construction')
                raise Stop()
            raise
        if id(spec) in label:
            return None            # shared Provides: already a node
        counters['D'] += 1
        if knd == 'impl':
            classes.append(extra)
        # class specs of classes created implicitly (implementedBy(base)) become nodes too
        reg(lbl, spec, knd, None, extra)
        return lbl

    # ---- mirror oracle ---------------------------------------------------
    def mirror(bmap):
        """label -> bool: can CPython build the mirrored hierarchy?  also fills mirror.mro"""
        MI = type('MInterface', (object,), {})
        mir = {'Interface': MI}
        ok = {'Interface': True}
        mro = {}

        def build(j):
            if j in ok:
                return ok[j]
            ok[j] = False    # cycle guard
            good = all(build(b) for b in bmap[j])
            if good:
                try:
                    mir[j] = type('M_' + j, tuple(mir[b] for b in bmap[j]) or (MI,), {})
                    ok[j] = True
                except TypeError:
                    ok[j] = False
            return ok[j]
        for j in bmap:
            build(j)
        inv = {v: k for k, v in mir.items()}
        for j in bmap:
            if ok[j] and j != 'Interface':
                mro[j] = [inv[x] for x in mir[j].__mro__ if x is not object and x is not MI]
        mirror.mro = mro
        return ok

    def live():
        return [l for l in order if node.get(l) is not None]

    def lab(spec):
        return label.get(id(spec), '?' + getattr(spec, '__name__', type(spec).__name__))

    def selected(k, l):
        return chk_p >= 100 or (h64(k, l) % 100) < chk_p

    # ---- checks ----------------------------------------------------------
    def check_graph(k, final=False):
        L = live()
        ok = mirror(bases_of) if 'C03' in props else {}
        mro = getattr(mirror, 'mro', {})
        dig = []
        allT = L + ['Interface'] + [l for l in kind if kind[l] == 'fixed' and l != 'Interface']
        for s in L:
            if not (final or selected(k, s)):
                continue
            if s in tainted:
                ctx.probe('tainted-node-not-judged')
                continue
            S = node[s]
            rs = reach(bases_of, s)
            sro = [lab(x) for x in S.__sro__]
            dig.append((s, tuple(sro)))
            if 'C02' in props:
                want = rs | {s, 'Interface'}
                ctx.state('reach', kind[s], len(bases_of[s]), len(rs), tuple(sorted(kind[x] for x in rs)))
                if set(sro) != want:
                    ctx.violation('C02', 'sro-members', 'C02|sro-members|%s|%s' % (
                        kind[s], 'missing' if want - set(sro) else 'extra'),
                        {'node': s, 'sro': sro, 'want': sorted(want), 'bases': dict(bases_of)})
                for t in allT:
                    T = node[t]
                    if T is None:
                        continue
                    w_ioe = (t == s) or (t in rs) or t == 'Interface'
                    w_ext = ((t in rs) or t == 'Interface') and t != s
                    if bool(S.isOrExtends(T)) != w_ioe:
                        ctx.violation('C02', 'isOrExtends', 'C02|isOrExtends|%s->%s|%s' % (
                            kind[s], kind[t], 'false-negative' if w_ioe else 'false-positive'),
                            {'S': s, 'T': t, 'want': w_ioe, 'bases': dict(bases_of)})
                    if bool(S.extends(T)) != w_ext:
                        ctx.violation('C02', 'extends', 'C02|extends|%s->%s|%s' % (
                            kind[s], kind[t], 'false-negative' if w_ext else 'false-positive'),
                            {'S': s, 'T': t, 'want': w_ext, 'bases': dict(bases_of)})
                    # (only interfaces compare by name, so only they can be found through a proxy that merely forwards)
                    if odd_world and (kind[t] == 'I' or t == 'Interface') and bool(S.isOrExtends(Proxy(T))) != w_ioe:
                        ctx.violation('C02', 'isOrExtends-proxied', 'C02|isOrExtends|argument-behind-a-transparent-proxy|%s' % (
                            'false-negative' if w_ioe else 'false-positive'), {'S': s, 'T': t})
                    if bool(S.extends(T, strict=False)) != w_ioe:
                        ctx.violation('C02', 'extends-nonstrict', 'C02|extends(strict=False)|%s->%s' % (kind[s], kind[t]),
                                      {'S': s, 'T': t, 'want': w_ioe})
                    if kind[t] == 'I' or t == 'Interface':
                        if kind[s] == 'prov':
                            if bool(T.providedBy(keep[s])) != w_ioe:
                                ctx.violation('C02', 'providedBy-after-rebase', 'C02|I.providedBy(ob)|%s' % (
                                    'false-negative' if w_ioe else 'false-positive'), {'S': s, 'T': t})
                        elif kind[s] == 'impl':
                            if bool(T.implementedBy(keep[s])) != w_ioe:
                                ctx.violation('C02', 'implementedBy-after-rebase', 'C02|I.implementedBy(cls)|%s' % (
                                    'false-negative' if w_ioe else 'false-positive'), {'S': s, 'T': t})
            if 'C03' in props:
                bad = None
                if not sro or sro[0] != s:
                    bad = 'does-not-start-with-self'
                elif len(set(sro)) != len(sro):
                    bad = 'duplicates'
                elif sro[-1] != 'Interface':
                    bad = 'does-not-end-with-Interface'
                else:
                    pos = {x: i for i, x in enumerate(sro)}
                    for x in sro:
                        for b in bases_of.get(x, ()):
                            if b == 'Interface':
                                continue
                            if b not in pos or pos[b] < pos[x]:
                                bad = 'base-before-derived'
                iro = [lab(x) for x in S.__iro__]
                if bad is None and iro != [x for x in sro if kind.get(x) == 'I' or x == 'Interface']:
                    bad = 'iro-not-interface-subsequence'
                if bad:
                    ctx.violation('C03', 'validity', 'C03|validity|%s|%s' % (kind[s], bad),
                                  {'node': s, 'sro': sro, 'iro': iro, 'bases': dict(bases_of)})
                consistent = ok.get(s, False)
                ctx.state('c3', kind[s], consistent, len(sro), tuple(len(bases_of[x]) for x in sro[:6]))
                if consistent and not legacy_env:
                    got = [x for x in sro if x != 'Interface']
                    if got != mro[s]:
                        ctx.violation('C03', 'sro!=C3', 'C03|sro!=python-mro|%s' % kind[s],
                                      {'node': s, 'sro': got, 'python': mro[s], 'bases': dict(bases_of)})
                if not consistent:
                    ctx.probe('inconsistent-node')
                if kind[s] == 'I' and all(kind[x] == 'I' or x == 'Interface' for x in rs):
                    # interface-only ancestry: Interface is a common root, literal C3 == forced-last C3
                    try:
                        zro.ro(S, strict=True)
                        strict_ok = True
                    except ICE:
                        strict_ok = False
                    if strict_ok != consistent:
                        ctx.violation('C03', 'strict', 'C03|ro(strict=True)|%s' % (
                            'raises-although-C3-exists' if consistent else 'accepts-although-no-C3'),
                            {'node': s, 'bases': dict(bases_of)})
                    ic = zro.is_consistent(S)
                    if bool(ic) != consistent:
                        ctx.violation('C03', 'is_consistent', 'C03|is_consistent|%s' % (
                            'False-although-C3-exists' if consistent else 'True-although-no-C3'),
                            {'node': s, 'bases': {x: bases_of[x] for x in ([s] + sorted(rs))}})
                    if consistent and not legacy_env:
                        r2 = [lab(x) for x in zro.ro(S)]
                        if r2 != sro and [x for x in r2 if x != 'Interface'] != mro[s]:
                            ctx.violation('C03', 'ro()!=C3', 'C03|ro()!=python-mro', {'node': s, 'ro': r2, 'python': mro[s]})
        if 'C03' in props and (final or selected(k, 'generic-mirror')):
            check_generic(k)
        if 'C02' in props:
            for I in [l for l in L if kind[l] == 'I'][:3]:
                if _empty.isOrExtends(node[I]) or _empty.extends(node[I]):
                    ctx.violation('C02', '_empty', 'C02|_empty-extends-something', {'T': I})
            if not _empty.isOrExtends(Interface) or tuple(_empty.__sro__) != (_empty, Interface):
                ctx.violation('C02', '_empty', 'C02|_empty-changed', {})
        ctx.log('chk', h64(tuple(dig)) % 10 ** 9)

    def check_generic(k):
        """The linearization functions of `ro` on plain objects that merely have `__bases__` (the documented input), shaped
        like the current model graph with the base order of one node reversed -- so that inconsistent shapes are met in
        every process configuration, also under ZOPE_INTERFACE_STRICT_IRO=1 where no inconsistent *specification* can be
        built.  Oracle: the independent C3 of machines/base.py."""
        class Gen:
            def __init__(self, name):
                self.__name__ = name
                self.__bases__ = ()

            def __repr__(self):
                return '<Gen %s>' % self.__name__
        L = live()
        gmap = {l: [b for b in bases_of[l] if b != 'Interface' and b in L] for l in L}
        if L:
            victim = L[h64(k, 'victim') % len(L)]
            if h64(k, 'reverse') % 2:
                gmap[victim] = list(reversed(gmap[victim]))
        G = {l: Gen(l) for l in L}
        for l in L:
            G[l].__bases__ = tuple(G[b] for b in gmap[l])
        memo = {}
        for l in L:
            try:
                want = c3(l, gmap, memo)
            except ValueError:
                want = None
            ctx.probe('generic-consistent' if want is not None else 'generic-inconsistent')
            got = {}
            for label_, kw in (('strict=True', {'strict': True}), ('strict=False', {'strict': False})):
                try:
                    got[label_] = [x.__name__ for x in zro.ro(G[l], **kw)]
                except ICE:
                    got[label_] = 'raise'
            try:
                got['is_consistent'] = bool(zro.is_consistent(G[l]))
            except ICE:
                got['is_consistent'] = 'raise'
            bad = None
            if got['is_consistent'] != (want is not None):
                bad = 'is_consistent|%s' % ('raises' if got['is_consistent'] == 'raise' else (
                    'True-although-no-C3' if want is None else 'False-although-C3-exists'))
            elif (got['strict=True'] == 'raise') != (want is None):
                bad = 'ro(strict=True)|%s' % ('accepts-although-no-C3' if want is None else 'raises-although-C3-exists')
            elif got['strict=False'] == 'raise':
                bad = 'ro(strict=False)|raises'
            elif want is not None and not legacy_env and (got['strict=True'] != want or got['strict=False'] != want):
                bad = 'ro()!=C3'
            else:
                r = got['strict=False']
                if r[0] != l or len(set(r)) != len(r) or set(r) != reach(gmap, l) | {l}:
                    bad = 'ro(strict=False)|not-a-linearization'
            if bad:
                ctx.violation('C03', 'generic', 'C03|plain-objects|' + bad, {'node': l, 'bases': gmap, 'got': got, 'want': want})

    def check_fresh():
        """C02 second oracle: a freshly built graph of the same shape answers the same."""
        L = live()
        counters['fresh'] += 1
        pre = 'T%d_' % counters['fresh']
        twin = {'Interface': Interface}
        done = set()

        def build(l):
            if l in twin:
                return twin[l]
            bs = tuple(build(b) for b in bases_of[l])
            if kind[l] == 'I' and all(isinstance(b, InterfaceClass) for b in bs):
                twin[l] = InterfaceClass(pre + l, bs, {}, __module__='zisim.t')
            else:
                twin[l] = Specification(bs)
            return twin[l]
        try:
            for l in list(bases_of):
                if node.get(l) is not None:
                    build(l)
        except ICE:
            if strict_env:
                return
            raise
        ok = mirror(bases_of)
        inv = {id(v): k for k, v in twin.items()}
        ctx.probe('fresh-twin')
        for s in L:
            if s in tainted:
                continue
            S, T = node[s], twin[s]
            a = [lab(x) for x in S.__sro__]
            b = [inv.get(id(x), '?') for x in T.__sro__]
            if set(a) != set(b):
                ctx.violation('C02', 'fresh-sro-members', 'C02|fresh-graph|sro-members|%s' % kind[s],
                              {'node': s, 'history': a, 'fresh': b, 'bases': dict(bases_of)})
            if 'C03' in props and ok.get(s) and not legacy_env and a != b:
                ctx.violation('C03', 'fresh-sro-order', 'C03|fresh-graph|sro-order|%s' % kind[s],
                              {'node': s, 'history': a, 'fresh': b, 'bases': dict(bases_of)})
            for t in L:
                if bool(S.isOrExtends(node[t])) != bool(T.isOrExtends(twin[t])):
                    ctx.violation('C02', 'fresh-isOrExtends', 'C02|fresh-graph|isOrExtends|%s->%s' % (kind[s], kind[t]),
                                  {'S': s, 'T': t, 'bases': dict(bases_of)})

    def first_definer(I, what, key):
        for x in I.__iro__:
            l = label.get(id(x))
            if l is None:
                continue
            tbl = (attrs if what == 'attr' else tags).get(l) or {}
            if key in tbl:
                return l, tbl[key]
        return None, None

    def check_attrs(k, final=False):
        L = [l for l in live() if kind[l] == 'I']
        for s in L:
            if not (final or selected(k, 'a' + s)):
                continue
            I = node[s]
            present = {}
            for n in NAMES:
                l, d = first_definer(I, 'attr', n)
                if l is not None:
                    present[n] = d
            ctx.state('attrs', len(I.__iro__), tuple(sorted((n, label.get(id(d.interface))) for n, d in present.items())))
            nd = dict(I.namesAndDescriptions(all=True))
            names_all = set(I.names(all=True))
            it = set(iter(I))
            for n in NAMES:
                want = present.get(n)
                got = {}
                got['get'] = I.get(n)
                got['queryDescriptionFor'] = I.queryDescriptionFor(n)
                try:
                    got['[]'] = I[n]
                except KeyError:
                    got['[]'] = None
                try:
                    got['getDescriptionFor'] = I.getDescriptionFor(n)
                except KeyError:
                    got['getDescriptionFor'] = None
                got['namesAndDescriptions'] = nd.get(n)
                for acc, g in got.items():
                    if g is not want:
                        ctx.violation('C15', 'accessor', 'C15|%s|%s' % (acc, 'absent-but-defined' if g is None else (
                            'present-but-undefined' if want is None else 'not-first-definer')),
                            {'iface': s, 'name': n, 'got': getattr(getattr(g, 'interface', None), '__name__', None),
                             'want': getattr(getattr(want, 'interface', None), '__name__', None),
                             'iro': [lab(x) for x in I.__iro__], 'bases': {x: bases_of[x] for x in [s] + sorted(reach(bases_of, s))}})
                for acc, g in (('in', n in I), ('iter', n in it), ('names(all)', n in names_all)):
                    if bool(g) != (want is not None):
                        ctx.violation('C15', 'membership', 'C15|%s|%s' % (acc, 'absent-but-defined' if want is not None else 'present-but-undefined'),
                                      {'iface': s, 'name': n, 'iro': [lab(x) for x in I.__iro__]})
            if set(nd) - set(NAMES) or names_all - set(NAMES):
                ctx.violation('C15', 'membership', 'C15|unknown-name-listed', {'iface': s})
            # direct forms
            if set(I.names()) != set(attrs[s]) or dict(I.namesAndDescriptions()) != attrs[s]:
                ctx.violation('C15', 'direct', 'C15|names()-direct', {'iface': s})
            # tagged values
            union = set()
            for x in I.__iro__:
                union |= set((tags.get(label.get(id(x))) or {}))
                if invs.get(label.get(id(x))) or label.get(id(x)) in inv_tagged:
                    union.add('invariants')
            if set(I.getTaggedValueTags()) != union:
                ctx.violation('C15', 'tags', 'C15|getTaggedValueTags', {'iface': s, 'got': sorted(I.getTaggedValueTags()), 'want': sorted(union)})
            for t in TAGS:
                l, v = first_definer(I, 'tag', t)
                dflt = object()
                g = I.queryTaggedValue(t, dflt)
                try:
                    g2 = I.getTaggedValue(t)
                except KeyError:
                    g2 = dflt
                # the default the caller passes happens to equal a stored value (None is queryTaggedValue's own default)
                for d2 in (None, 0):
                    g3 = I.queryTaggedValue(t, d2) if d2 is not None else I.queryTaggedValue(t)
                    w3 = d2 if l is None else v
                    if g3 != w3 or (g3 is None) != (w3 is None):
                        ctx.violation('C15', 'tagged', 'C15|queryTaggedValue|default-coincides-with-a-stored-value',
                                      {'iface': s, 'tag': t, 'default': d2, 'got': g3, 'want': w3, 'iro': [lab(x) for x in I.__iro__]})
                for acc, gg in (('queryTaggedValue', g), ('getTaggedValue', g2)):
                    if (gg is dflt) != (l is None) or (l is not None and (gg != v or (gg is None) != (v is None))):
                        ctx.violation('C15', 'tagged', 'C15|%s|%s' % (acc, 'absent-but-defined' if gg is dflt else (
                            'present-but-undefined' if l is None else 'not-first-definer')),
                            {'iface': s, 'tag': t, 'got': None if gg is dflt else gg, 'want': v, 'iro': [lab(x) for x in I.__iro__]})
                dv = I.queryDirectTaggedValue(t, dflt)
                if (dv is dflt) != (t not in tags[s]):
                    ctx.violation('C15', 'tagged', 'C15|queryDirectTaggedValue', {'iface': s, 'tag': t})
            # invariants
            want_calls = []
            want_fail = []
            for x in I.__iro__:
                l = label.get(id(x))
                for j, f in enumerate(invs.get(l) or ()):
                    want_calls.append((l, j))
                    if f:
                        want_fail.append('%s#%d' % (l, j))
            del inv_calls[:]
            errors = []
            raised = None
            try:
                I.validateInvariants(object(), errors)
            except Invalid as e:
                raised = e
            got_fail = [str(e.args[0]) for e in errors]
            if inv_calls != want_calls:
                ctx.violation('C15', 'invariants', 'C15|validateInvariants|%s' % (
                    'invariant-not-run' if len(inv_calls) < len(want_calls) else 'wrong-invariants-run'),
                    {'iface': s, 'ran': list(inv_calls), 'want': want_calls})
            if got_fail != want_fail or (raised is None) != (not want_fail):
                ctx.violation('C15', 'invariants', 'C15|validateInvariants|failures-not-collected',
                              {'iface': s, 'got': got_fail, 'want': want_fail, 'raised': raised is not None})
            del inv_calls[:]
            raised = None
            try:
                I.validateInvariants(object())
            except Invalid as e:
                raised = str(e.args[0])
            if want_fail:
                upto = want_calls[:[('%s#%d' % c) for c in want_calls].index(want_fail[0]) + 1]
                if raised != want_fail[0] or inv_calls != upto:
                    ctx.violation('C15', 'invariants', 'C15|validateInvariants|first-failure', {'iface': s, 'raised': raised, 'want': want_fail[0]})
            elif raised is not None or inv_calls != want_calls:
                ctx.violation('C15', 'invariants', 'C15|validateInvariants|no-error-list', {'iface': s, 'raised': raised})

    def check(k, final=False):
        if props & {'C02', 'C03'}:
            check_graph(k, final)
        if 'C15' in props:
            check_attrs(k, final)

    # ---- build world -----------------------------------------------------
    def resolve_bases(target, raw, pool=None):
        """acyclic, de-duplicated list of labels for a rebase of *target*"""
        L = pool if pool is not None else live()
        out = []
        for r in raw:
            if not L:
                break
            b = L[r % len(L)]
            if b == target or b in out:
                continue
            if target is not None and (target in reach(bases_of, b)):
                continue
            out.append(b)
        return out

    for i, bs in enumerate(W['ibases']):
        new_iface(['I%d' % b for b in bs if ('I%d' % b) in node], W['iattrs'][i], W['itags'][i], W['iinv'][i])
    for d in W['decls']:
        ifl = [l for l in order if kind[l] == 'I']
        xs = [ifl[x % len(ifl)] for x in d['xs']] if ifl else []
        xs = list(dict.fromkeys(xs))
        new_decl(d['kind'], xs, d.get('cb', ()), d.get('c', 0))

    check(0, final=True)

    def do_q(op):
        L = [l for l in live() if kind[l] == 'I']
        if not L:
            return
        s = L[op['i'] % len(L)]
        I = node[s]
        n = (NAMES + TAGS + ['zz'])[op['n'] % 6]
        a = op['a'] % 12

        def dl(d):
            return None if d is None else lab(d.interface) + '.' + d.__name__
        try:
            if a == 0:
                r = dl(I.get(n))
            elif a == 1:
                r = dl(I[n])
            elif a == 2:
                r = n in I
            elif a == 3:
                r = sorted(iter(I))
            elif a == 4:
                r = sorted(I.names(all=True))
            elif a == 5:
                r = sorted((k, dl(v)) for k, v in I.namesAndDescriptions(all=True))
            elif a == 6:
                r = I.queryTaggedValue(n)
            elif a == 7:
                r = I.getTaggedValue(n)
            elif a == 8:
                r = sorted(I.getTaggedValueTags())
            elif a == 9:
                r = dl(I.queryDescriptionFor(n))
            elif a == 10:
                errs = []
                try:
                    I.validateInvariants(object(), errs)
                    r = 'ok'
                except Invalid:
                    r = [str(e.args[0]) for e in errs]
            else:
                r = [lab(x) for x in I.__iro__]
        except (KeyError, AttributeError) as e:
            # AttributeError: the accessors that recurse over __bases__ do not support an
            # interface re-based onto a non-interface specification (only generated in 'mix' rebasings)
            r = type(e).__name__
        ctx.probe('accessor-%d' % a)
        ctx.log(ctx.step, 'q', a, s, n, r)

    def assign_plain(lbl, bases):
        """a re-basing during which nothing the simulator owns fails: it must not raise (other than for strict-mode reasons)"""
        try:
            node[lbl].__bases__ = bases
        except (KeyError, RuntimeError, AttributeError, TypeError, ValueError, IndexError) as e:
            ctx.violation('C02', 'rebase-raises', 'C02|rebase-raises|%s' % type(e).__name__,
                          {'node': lbl, 'after-failed-assignment': bool(flakies)})

    rebased = set()
    for step, op in enumerate(program['ops']):
        ctx.step = step
        ctx.nops += 1
        name = op['op']
        k = op.get('k', 0)
        if name == 'gc':
            gc.collect()
            ctx.fault('gc')
            ctx.log(step, 'gc')
        elif name == 'perm':
            L = live() + ['Interface']
            s = L[op['n'] % len(L)]
            d = node[s]._dependents
            if d and len(d.data) > 1:
                items = list(d.data.items())
                random.Random(op['ps']).shuffle(items)
                d.data.clear()
                d.data.update(items)
                ctx.fault('perm')
            ctx.log(step, 'perm', s)
        elif name == 'q':
            do_q(op)
            continue            # no full check: leave the memo partially warm
        elif name == 'newi':
            ifl = [l for l in live() if kind[l] == 'I']
            bl = resolve_bases(None, op['bases'], ifl)
            l = new_iface(bl, op.get('attrs') or {}, {}, [])
            ctx.log(step, 'newi', l, bl)
        elif name == 'newd':
            L = live()
            if op['kind'] == 'decl':
                bl = resolve_bases(None, op['bases'], L)
                try:
                    spec = Specification(tuple(node[b] for b in bl))
                except ICE:
                    if strict_env:
                        raise Stop()
                    raise
                lbl = 'D%d' % counters['D']
                counters['D'] += 1
                reg(lbl, spec, 'decl', bl)
                ctx.log(step, 'newd', lbl, bl)
            else:
                ifl = [l for l in L if kind[l] == 'I']
                bl = resolve_bases(None, op['bases'], ifl)
                l = new_decl(op['kind'], bl, [op['c']], op['c'])
                ctx.log(step, 'newd', op['kind'], l, bl)
        elif name == 'drop':
            L = live()
            used = {b for l in L for b in bases_of[l]}
            cands = [l for l in L if l not in used and kind[l] in ('decl', 'prov')]
            icands = [l for l in L if l not in used and kind[l] == 'I']
            if not cands and icands and not (W.get('decls') or []):
                # interface-only world: a leaf interface that has answered attribute queries (its memo is filled) is dropped
                # and a collection runs; whether it really went away goes into the event log (the two implementations must
                # agree: a specification the collector cannot reach into would stay alive, with its bases still listing it)
                l = icands[op['n'] % len(icands)]
                I = node[l]
                for n_ in NAMES:
                    I.get(n_)
                import weakref as _wr
                wr = _wr.ref(I)
                label.pop(id(I), None)
                node[l] = None
                keep[l] = None
                for tbl in (attrs, tags, rawtags, invs):
                    tbl.pop(l, None)
                spies[:] = [sp for sp in spies if sp.I is not I]
                del I
                gc.collect()
                ctx.fault('drop')
                ctx.fault('gc')
                ctx.probe('interface-dropped-and-collected')
                ctx.log(step, 'dropi', l, 'collected' if wr() is None else 'still-alive')
                if 'C15' in props and wr() is not None and not spy_world:
                    ctx.probe('dropped-interface-still-alive')
            elif cands:
                l = cands[op['n'] % len(cands)]
                label.pop(id(node[l]), None)     # the address may be reused once the object is collected
                node[l] = None
                keep[l] = None
                ctx.fault('drop')
                ctx.probe('dependent-dropped')
                ctx.log(step, 'drop', l)
        elif name == 'reload':
            # "module reload done carefully": an interface is replaced by a new object with the SAME name and module.
            # The old one is first detached from all its bases (so the two equal-named objects are never dependents
            # of the same specification -- they would alias in the weak dependents map, a documented usage constraint),
            # then every specification that had the old one as a base is re-based onto the new one, then the old one is dropped.
            L = live()
            cands = [l for l in L if kind[l] == 'I']
            # only in interface-only worlds: an instance declaration made with the old object stays in the
            # InstanceDeclarations cache under a key that the new, equal-named object also matches
            if not cands or strict_env or any(kind[l] != 'I' for l in order):
                continue
            s = cands[op['n'] % len(cands)]
            old_bases = list(bases_of[s])
            deps = [d for d in L if s in bases_of[d]]
            assign_plain(s, ())
            bases_of[s] = []
            propagated(s)
            iat = {n: ('meth' if isinstance(v, Method) else 'attr') for n, v in (attrs.get(s) or {}).items()}
            itg = dict(rawtags.get(s) or {})
            s2 = new_iface([b for b in old_bases if kind.get(b) == 'I'], iat, itg, invs.get(s) or [], real_name=node[s].__name__)
            for d in deps:
                nb = [s2 if b == s else b for b in bases_of[d]]
                assign_plain(d, tuple(node[b] for b in nb))
                bases_of[d] = nb
                propagated(d)
            label.pop(id(node[s]), None)
            node[s] = None
            keep[s] = None
            ctx.probe('interface-reloaded')
            if deps:
                ctx.probe('interface-reloaded-with-dependents')
            ctx.log(step, 'reload', s, s2, deps)
        elif name == 'rebase_reenter':
            L = live()
            if not L or strict_env:
                continue
            s = L[op['n'] % len(L)]
            pool = [l for l in L if kind[l] == 'I'] if kind[s] == 'I' else L
            mb = list(resolve_bases(s, op['bases'], pool))
            if kind[s] == 'I' and not mb:
                mb = ['Interface']
            old_s = list(bases_of[s])
            bases_of[s] = mb                      # (what may be re-based above s is decided in the graph s will be in)
            above = [x for x in L if x != s and s not in reach(bases_of, x) and kind[x] != 'fixed']
            first = [x for x in mb if x in above]
            tc = first if (first and op.get('tnew')) else above
            if not tc:
                bases_of[s] = old_s
                continue
            t = tc[op['t'] % len(tc)]
            tpool = [l for l in L if kind[l] == 'I'] if kind[t] == 'I' else L
            tb = [x for x in resolve_bases(t, op['tbases'], tpool) if x != s and s not in reach(bases_of, x)]
            if kind[t] == 'I' and not tb:
                tb = ['Interface']
            bases_of[s] = old_s
            done = []

            class Rebaser:
                def changed(self_, originally_changed):
                    if not done:
                        done.append(1)
                        ctx.fault('cb-reenter-rebase-in-change-notification')
                        node[t].__bases__ = tuple(node[b] for b in tb)
            rb_ = Rebaser()
            flakies.append(rb_)
            node[s].subscribe(rb_)
            d = node[s]._dependents
            items = list(d.data.items())
            if len(items) > 1:
                it = items.pop()
                items.insert(op['pos'] % (len(items) + 1), it)
                d.data.clear()
                d.data.update(items)
            try:
                node[s].__bases__ = tuple(node[b] for b in mb)
            except (KeyError, RuntimeError, AttributeError, TypeError, ValueError, IndexError) as e:
                ctx.violation('C02', 'rebase-raises', 'C02|rebase-raises|%s|re-entrant' % type(e).__name__, {'node': s, 'bases': mb, 't': t, 'tbases': tb})
            bases_of[s] = mb
            if done:
                bases_of[t] = tb
                ctx.probe('rebase-from-inside-a-change-notification')
                if t in mb:
                    ctx.probe('new-base-rebased-from-inside-the-notification')
            propagated(s)
            if done:
                propagated(t)
            ctx.log(step, 'rebase_reenter', s, mb, t, tb, len(done), [lab(x) for x in node[s].__sro__])
        elif name == 'rebase_fail':
            L = live()
            if not L or strict_env or 'C02' not in props:
                continue
            s = L[op['n'] % len(L)]
            pool = [l for l in L if kind[l] == 'I'] if kind[s] == 'I' else L
            mb = list(resolve_bases(s, op['bases'], pool))
            if kind[s] == 'I' and not mb:
                mb = ['Interface']
            old = list(bases_of[s])
            fl = Flaky()
            flakies.append(fl)
            node[s].subscribe(fl)
            d = node[s]._dependents
            items = list(d.data.items())
            if len(items) > 1:
                # the failing dependent is told at a PRNG-chosen position among the direct dependents
                it = items.pop()
                items.insert(op['pos'] % (len(items) + 1), it)
                d.data.clear()
                d.data.update(items)
                if items[-1] is not it:
                    ctx.probe('failing-dependent-told-before-others')
            outcome = 'no-raise'
            try:
                node[s].__bases__ = tuple(node[b] for b in mb)
            except Injected:
                outcome = 'injected'
            except (KeyError, RuntimeError, AttributeError, TypeError, ValueError, IndexError) as e:
                ctx.violation('C02', 'rebase-raises', 'C02|rebase-raises|%s' % type(e).__name__, {'node': s, 'bases': mb})
            actual = [lab(x) for x in node[s].__bases__]
            if kind[s] == 'I' and not actual:
                actual = ['Interface']
            if actual != mb and actual != old:
                ctx.violation('C02', 'failed-assignment', 'C02|failed-assignment|bases-neither-old-nor-new',
                              {'node': s, 'old': old, 'new': mb, 'actual': actual})
            bases_of[s] = actual
            ctx.probe('rebase-with-failing-dependent')
            ctx.probe('failed-assignment-took-effect' if actual == mb else 'failed-assignment-rolled-back')
            below = {y for y in descendants(s) if kind.get(y) != 'fixed'}
            tainted.update(below)
            # s itself was recomputed before anybody was told; it is exactly as good as its bases
            if any(b in tainted for b in actual):
                tainted.add(s)
            else:
                tainted.discard(s)
            ctx.log(step, 'rebase_fail', s, mb, outcome, actual, sorted(below))
            if op.get('retry'):
                # the caller tries the same assignment again; this time nobody fails
                try:
                    node[s].__bases__ = tuple(node[b] for b in mb)
                except (Injected, KeyError, RuntimeError, AttributeError, TypeError, ValueError, IndexError) as e:
                    ctx.violation('C02', 'retry-raises', 'C02|assignment-repeated-after-a-failed-one-raises|%s' % type(e).__name__,
                                  {'node': s, 'bases': mb})
                bases_of[s] = mb
                propagated(s)
                ctx.probe('failed-assignment-repeated')
                ctx.log(step, 'retry', s, mb, [lab(x) for x in node[s].__sro__])
        elif name == 'rebase_empty':
            L = live() or ['Interface']
            try:
                _empty.__bases__ = (node[L[op['n'] % len(L)]],)
                ctx.violation('C02', '_empty', 'C02|_empty-accepts-bases', {})
            except TypeError:
                pass
            ctx.log(step, 'rebase_empty')
        elif name == 'rebase':
            L = live()
            if not L:
                continue
            s = L[op['n'] % len(L)]
            # an interface is normally re-based onto interfaces; 'mix' also allows any specification
            pool = [l for l in L if kind[l] == 'I'] if (kind[s] == 'I' and not op.get('mix')) else L
            if kind[s] == 'I' and op.get('mix'):
                ctx.probe('interface-rebased-onto-any-spec')
            bl = resolve_bases(s, op['bases'], pool)
            mb = list(bl)
            if kind[s] == 'I' and not mb:
                mb = ['Interface']
            expect_raise = False
            if strict_env:
                mc = model_consistent(s, mb)
                expect_raise = None if mc is None else (not mc)
            old = bases_of[s]
            bases_of[s] = mb
            if s in rebased:
                ctx.probe('rebased-twice')
            rebased.add(s)
            ctx.probe('rebase-' + kind[s])
            if any(s in bases_of[x] and len(bases_of[x]) > 1 for x in L):
                ctx.probe('rebase-under-multi-base-dependent')
            # "prime": the last question put to each specification below s before the re-basing is a positive one about
            # something s reaches now; the same question is the first one put to it afterwards (a remembered answer
            # that the change failed to discard would be served exactly then, and only then)
            primed = []
            if 'C02' in props:
                prng = random.Random(k)
                old_map = dict(bases_of)
                old_map[s] = old
                old_reach = sorted(reach(old_map, s)) + ['Interface']
                for x in L:
                    if node[x] is None or x in tainted or not (x == s or s in reach(old_map, x)):
                        continue
                    t = old_reach[prng.randrange(len(old_reach))]
                    if node.get(t) is None:
                        continue
                    node[x].isOrExtends(node[t])
                    primed.append((x, t))
                ctx.probe('primed-questions', len(primed))
            via_decl = (kind[s] == 'impl' and isinstance(keep.get(s), type) and all(kind.get(b) == 'I' for b in mb)
                        and h64(k, 'via-declaration-api') % 2 == 0)
            try:
                if via_decl:
                    # the same re-basing done through the declaration API: an *only* declaration replaces the bases of the
                    # class specification by exactly the interfaces given (possibly none)
                    classImplementsOnly(keep[s], *[node[b] for b in mb])
                    ctx.probe('rebase-impl-via-classImplementsOnly')
                    real = [lab(x) for x in node[s].__bases__]
                    if set(real) != set(mb):
                        ctx.violation('C02', 'only-bases', 'C02|classImplementsOnly|bases-are-not-the-declared-interfaces',
                                      {'node': s, 'declared': mb, 'bases': real})
                    bases_of[s] = real
                else:
                    node[s].__bases__ = tuple(node[b] for b in mb)
                raised = False
            except ICE:
                raised = True
            except (KeyError, RuntimeError, AttributeError, TypeError, ValueError, IndexError) as e:
                # nothing the simulator owns can fail here: no dependent raises in this operation
                ctx.violation('C02', 'rebase-raises', 'C02|rebase-raises|%s' % type(e).__name__,
                              {'node': s, 'bases': mb, 'after-failed-assignment': bool(flakies)})
            if not raised:
                propagated(s)
                for x, t in primed:
                    if x in tainted:
                        continue
                    want = (t == x) or (t in reach(bases_of, x)) or t == 'Interface'
                    if bool(node[x].isOrExtends(node[t])) != want:
                        ctx.violation('C02', 'isOrExtends-primed', 'C02|isOrExtends|asked-right-before-and-right-after-the-rebasing|%s' % (
                            'false-negative' if want else 'false-positive'), {'S': x, 'T': t, 'rebased': s, 'bases': dict(bases_of)})
            ctx.log(step, 'rebase', s, mb, raised, [lab(x) for x in node[s].__sro__])
            if raised:
                if not strict_env:
                    ctx.violation('C03', 'raise-nonstrict', 'C03|rebase-raises-in-non-strict-mode', {'node': s})
                if expect_raise is False:
                    # (told apart from the known transient of defect F10: a definition that strict mode refused earlier is
                    # still subscribed to a live specification, and it is *that* unreachable object the re-basing trips over)
                    left = [getattr(dep, '__name__', '') for x in live() + ['Interface'] if node.get(x) is not None
                            for dep in (list(node[x]._dependents.keys()) if node[x]._dependents else [])
                            if str(getattr(dep, '__name__', '')).startswith('Refused')]
                    if left:
                        ctx.violation('C03', 'strict-leftover', 'C03|strict|rebase-raises-because-a-refused-definition-lingers',
                                      {'node': s, 'bases': dict(bases_of), 'old': old, 'leftover': left[:3]})
                    ctx.violation('C03', 'strict-transient', 'C03|strict|rebase-raises-although-every-node-has-C3',
                                  {'node': s, 'bases': dict(bases_of), 'old': old})
                ctx.probe('strict-raise-expected')
                # (what the refused specification answers now is not judged, but it is logged: both implementations must agree)
                ctx.log(step, 'after-refused-rebase', [bool(node[s].isOrExtends(node[t])) for t in L if node.get(t) is not None][:16],
                        [bool(node[t].providedBy(keep[s])) for t in L if kind[s] == 'prov' and kind.get(t) == 'I' and node.get(t) is not None][:8])
                raise Stop()     # propagation was aborted; the statement is vacuous from here
            elif expect_raise is True:
                ctx.violation('C03', 'strict-missed', 'C03|strict|rebase-accepted-although-no-C3',
                              {'node': s, 'bases': dict(bases_of)})
        else:
            raise ValueError('unknown op %r' % (name,))
        if spies:
            check_spies()
        check(k)
        if 'C02' in props and fresh_p and (h64(k, 'fresh') % 100) < fresh_p:
            check_fresh()
    ctx.step = len(program['ops'])
    check(0, final=True)
    if 'C02' in props:
        check_fresh()


def describe(program):
    return {'world': program['world'], 'ops': program['ops'][:10]}


def run(req, item):
    return standard_run(generate, execute, req, item, describe)
